//! Input alphabets and the operations (with their per-element oracles) of check C19.

use echo_wasm_abi::codec::{canonicalize_f32, fx_from_f32};
use mc::{json, Value};
use std::f32::consts::{FRAC_PI_2, PI, TAU};
use std::sync::Arc;
use warp_math::scalar::{DFix64, F32Scalar, Scalar};
use warp_math::{fixed_q32_32, Mat4, Prng, Quat, Vec3};

pub use c19fw::{Op, Out, PredFn, T_I, T_P, T_R, T_S};

/// push a result of the F32Scalar type (checked for canonical form by the framework)
fn sc(o: &mut Out, x: F32Scalar) -> u32 {
    o.s_bits(x.to_f32().to_bits())
}

// ───────────────────────────── alphabets ─────────────────────────────

pub struct Alph {
    pub thorough: bool,
    pub u: Vec<u32>,
    pub b: Vec<u32>,
    pub t: Vec<u32>,
    pub v: Vec<[u32; 3]>,
    pub q: Vec<[u32; 4]>,
    pub m: Vec<[u32; 16]>,
    pub iraw: Vec<i64>,
    pub seeds: Vec<(u64, u64)>,
    pub ranges: Vec<(i32, i32)>,
}

pub fn class_of(bits: u32) -> &'static str {
    let e = (bits >> 23) & 0xff;
    let m = bits & 0x7f_ffff;
    match (e, m) {
        (0, 0) => {
            if bits >> 31 == 1 {
                "negative_zero"
            } else {
                "zero"
            }
        }
        (0, _) => "subnormal",
        (255, 0) => "infinity",
        (255, _) => "nan",
        _ => "normal",
    }
}

fn finite(bits: u32) -> bool {
    (bits >> 23) & 0xff != 0xff
}

fn special_f32(bits: u32) -> bool {
    class_of(bits) != "normal" && class_of(bits) != "zero" || (finite(bits) && f32::from_bits(bits).abs() >= FRAC_PI_2)
}

fn dedup(v: Vec<u32>) -> Vec<u32> {
    let mut seen = std::collections::BTreeSet::new();
    v.into_iter().filter(|x| seen.insert(*x)).collect()
}

impl Alph {
    pub fn new(thorough: bool) -> Arc<Alph> {
        // --- quick unary alphabet: every exponent x 64 mantissa patterns x both signs + bands ---
        let pi2 = FRAC_PI_2.to_bits() & 0x7f_ffff; // same mantissa for pi/2, pi, 2pi, 4pi
        let p32 = (3.0 * FRAC_PI_2).to_bits() & 0x7f_ffff;
        let mut mant: Vec<u32> = vec![
            0, 1, 2, 3, 0x7f_ffff, 0x7f_fffe, 0x40_0000, 0x40_0001, 0x3f_ffff, 0x20_0000, 0x60_0000, 0x10_0000, 0x55_5555, 0x2a_aaaa,
            pi2, pi2 - 1, pi2 + 1, p32, p32 - 1, p32 + 1,
        ];
        for k in 2..23 {
            mant.push(1 << k);
        }
        for k in 2..23 {
            mant.push((1 << k) - 1);
        }
        let mut mant = dedup(mant);
        let mut fill = 0x12_3457u32;
        while mant.len() < 64 {
            // deterministic fill (fixed constants, not random): odd multiples of a fixed stride
            fill = (fill + 0x0d_1b71) & 0x7f_ffff;
            if !mant.contains(&fill) {
                mant.push(fill);
            }
        }
        mant.truncate(64);
        let mut u = Vec::new();
        for sign in 0..2u32 {
            for e in 0..256u32 {
                for m in &mant {
                    u.push((sign << 31) | (e << 23) | m);
                }
            }
        }
        for c in [FRAC_PI_2, PI, 3.0 * FRAC_PI_2, TAU, 2.0 * TAU, 1.0f32] {
            for d in -64i32..=64 {
                let b = (c.to_bits() as i64 + d as i64) as u32;
                u.push(b);
                u.push(b | 0x8000_0000);
            }
        }
        let u = dedup(u);

        // --- class-covering binary alphabet ---
        let mut b: Vec<u32> = Vec::new();
        let f = |x: f32| x.to_bits();
        for x in [0.0f32, 1.0, 1.5, 2.0, 0.5, 3.0, 0.1, 1.0 / 3.0, FRAC_PI_2, PI, 3.0 * FRAC_PI_2, TAU, 1e-3, 1e3, 1e-6, 1e-12, 1e20, 1.5e19, f32::MAX, f32::MIN_POSITIVE, 16_777_216.0, 4_294_967_296.0, 2_147_483_648.0, 0.75] {
            b.push(f(x));
            b.push(f(-x));
        }
        // subnormals, infinities, NaNs (quiet/signalling, both signs, payloads)
        b.extend([0x0000_0001, 0x8000_0001, 0x007f_ffff, 0x807f_ffff, 0x0040_0000, 0x7f80_0000, 0xff80_0000]);
        b.extend([0x7fc0_0000, 0xffc0_0000, 0x7f80_0001, 0x7fc0_0001, 0xffff_ffff, 0x7fa0_0000, 0xff80_0001]);
        b.extend([f(TAU) - 1, f(FRAC_PI_2) + 1]);
        let mut b = dedup(b);
        assert!(b.len() == 64, "binary alphabet must have 64 entries, has {}", b.len());
        if thorough {
            // systematic extension to 256: exponent sweep x {0, .5, max} mantissas x both signs
            let mut e = 1u32;
            'outer: loop {
                for m in [0u32, 0x40_0000, 0x7f_ffff, 0x2a_aaaa] {
                    for s in [0u32, 1] {
                        let x = (s << 31) | (e << 23) | m;
                        if !b.contains(&x) {
                            b.push(x);
                        }
                        if b.len() == 256 {
                            break 'outer;
                        }
                    }
                }
                e = (e + 10) % 255;
                if e == 0 {
                    e = 3;
                }
            }
        }
        let nb = b.len();
        // ternary alphabet: always the 64 quick values
        let t: Vec<u32> = b[..64].to_vec();
        let v: Vec<[u32; 3]> = (0..nb).map(|i| [b[i], b[(i * 5 + 1) % nb], b[(i * 11 + 3) % nb]]).collect();
        let q: Vec<[u32; 4]> = (0..nb).map(|i| [b[i], b[(i * 3 + 1) % nb], b[(i * 7 + 2) % nb], b[(i * 13 + 5) % nb]]).collect();
        let nm = 64usize;
        let mut m: Vec<[u32; 16]> = Vec::new();
        let bits16 = |a: [f32; 16]| {
            let mut o = [0u32; 16];
            for i in 0..16 {
                o[i] = a[i].to_bits();
            }
            o
        };
        m.push(bits16(Mat4::identity().to_array()));
        m.push(bits16(Mat4::translation(1.0, 2.0, 3.0).to_array()));
        m.push(bits16(Mat4::scale(2.0, -3.0, 0.5).to_array()));
        // literal matrices (inputs must not depend on the functions under test)
        m.push(bits16([0.0, 1.0, 0.0, 0.0, -1.0, 0.0, 0.0, 0.0, 0.0, 0.0, 1.0, 0.0, 0.0, 0.0, 0.0, 1.0])); // exact quarter turn about z
        m.push(bits16([1.0, 0.5, 0.0, 0.0, 0.25, 1.0, 0.0, 0.0, 0.0, -0.75, 1.0, 0.0, 0.0, 0.0, 0.0, 1.0])); // shear
        m.push(bits16([0.0, 0.0, 1.0, 0.0, 1.0, 0.0, 0.0, 0.0, 0.0, 1.0, 0.0, 0.0, 0.0, 0.0, 0.0, 1.0])); // permutation
        m.push(bits16([0.1, 0.2, 0.3, 0.4, 0.5, 0.6, 0.7, 0.8, 0.9, 1.0, 1.1, 1.2, 1.3, 1.4, 1.5, 1.6])); // inexact decimals, full last row
        m.push([0u32; 16]);
        while m.len() < nm {
            let i = m.len();
            let mut a = [0u32; 16];
            for j in 0..16 {
                // mostly "ordinary" entries with a sprinkling of every special class
                a[j] = b[(i * (2 * j + 1) + j * j) % 64];
            }
            m.push(a);
        }
        // --- Q32.32 raw alphabet ---
        let one = 1i64 << 32;
        let mut iraw: Vec<i64> = vec![
            0, 1, -1, 2, -2, 3, one, -one, one + 1, one - 1, -one + 1, -one - 1, one / 2, -one / 2, one / 2 + 1, one / 2 - 1, 3 * one / 2, -3 * one / 2,
            i64::MAX, i64::MIN, i64::MAX - 1, i64::MIN + 1, 1 << 31, -(1 << 31), (1 << 31) + 1, (1 << 31) - 1, 1 << 62, -(1 << 62), 1 << 47, 1 << 16,
            3 << 31, 5 << 31, -(3 << 31), 7 * one, -7 * one, 10 * one, 3 * one, one / 3, -one / 3, 0x1234_5678_9abc_def0, -0x1234_5678_9abc_def0,
            6_746_518_852, 13_493_037_705, 26_986_075_409, -6_746_518_852, 0xffff_ffff, 0x1_0000_0001, 0x7fff_ffff_0000_0000, 0x0000_0001_8000_0000, 0x0000_0002_8000_0000,
            -(0x0000_0001_8000_0000), 0x0000_0000_8000_0001, 0x0000_0000_7fff_ffff, 1 << 55, 1 << 56, (1 << 56) + (1 << 32), (1 << 57) - 1, 0x00ff_ffff_8000_0000, 0x0100_0000_8000_0000, 0x0100_0001_8000_0000,
            46_341 * one, -46_341 * one, 65_536 * one, 2_147_483_647 * one,
        ];
        iraw.dedup();
        assert!(iraw.len() == 64, "raw alphabet must have 64 entries, has {}", iraw.len());
        if thorough {
            let mut k = 0u32;
            while iraw.len() < 256 {
                let x = (1i64 << (k % 63)).wrapping_mul(if k % 2 == 0 { 1 } else { -1 }).wrapping_add((k as i64 % 5) - 2);
                if !iraw.contains(&x) {
                    iraw.push(x);
                }
                k += 1;
            }
        }
        let sv = [0u64, 1, 2, u64::MAX, 0x9e37_79b9_7f4a_7c15, 1 << 63, 42, 0xdead_beef_cafe_f00d];
        let seeds: Vec<(u64, u64)> = sv.iter().flat_map(|a| sv.iter().map(move |b| (*a, *b))).collect();
        let rv = [i32::MIN, i32::MIN + 1, -10, -1, 0, 1, 7, 8, 10, i32::MAX - 1, i32::MAX];
        let ranges: Vec<(i32, i32)> = rv.iter().flat_map(|a| rv.iter().filter(move |b| *b >= a).map(move |b| (*a, *b))).collect();
        Arc::new(Alph { thorough, u, b, t, v, q, m, iraw, seeds, ranges })
    }
    pub fn unary_n(&self) -> u64 {
        if self.thorough {
            1 << 32
        } else {
            self.u.len() as u64
        }
    }
    #[inline]
    pub fn unary(&self, idx: u64) -> u32 {
        if self.thorough {
            idx as u32
        } else {
            self.u[idx as usize]
        }
    }
    pub fn class_counts(&self) -> Vec<(&'static str, u64)> {
        let mut m = std::collections::BTreeMap::new();
        for c in ["zero", "negative_zero", "subnormal", "normal", "infinity", "nan"] {
            m.insert(c, 0u64);
        }
        if self.thorough {
            // closed form for the full 2^32 sweep
            m.insert("zero", 1);
            m.insert("negative_zero", 1);
            m.insert("subnormal", 2 * ((1 << 23) - 1));
            m.insert("normal", 2 * 254 * (1 << 23));
            m.insert("infinity", 2);
            m.insert("nan", 2 * ((1 << 23) - 1));
        } else {
            for x in &self.u {
                *m.get_mut(class_of(*x)).unwrap() += 1;
            }
        }
        m.into_iter().collect()
    }
}

// ───────────────────────────── references ─────────────────────────────

/// Canonical form from the property text: NaN -> 0x7fc00000, subnormal and -0 -> +0, else unchanged.
pub fn canon_ref(bits: u32) -> u32 {
    match class_of(bits) {
        "nan" => 0x7fc0_0000,
        "subnormal" | "negative_zero" | "zero" => 0,
        _ => bits,
    }
}

fn canon_ref_f(x: f32) -> u32 {
    canon_ref(x.to_bits())
}

/// round-to-nearest-even of x * 2^32 into a saturating i64 (NaN -> 0), via exact f64 scaling.
fn ref_q32_from_f32(x: f32) -> i64 {
    if x.is_nan() {
        return 0;
    }
    ((x as f64) * 4_294_967_296.0).round_ties_even() as i64 // `as` saturates
}

/// truncation toward zero of x * 2^32, integer-only formulation.
fn ref_fx_trunc(x: f32) -> i64 {
    let bits = x.to_bits();
    let neg = bits >> 31 == 1;
    let e = ((bits >> 23) & 0xff) as i32;
    let m = (bits & 0x7f_ffff) as u128;
    if e == 255 {
        return if m != 0 {
            0
        } else if neg {
            i64::MIN
        } else {
            i64::MAX
        };
    }
    let (sig, exp2) = if e == 0 { (m, -149) } else { (m | (1 << 23), e - 150) };
    let sh = exp2 + 32;
    let mag: u128 = if sh >= 0 {
        if sh > 100 {
            u128::MAX
        } else {
            sig << sh
        }
    } else if -sh >= 128 {
        0
    } else {
        sig >> (-sh)
    };
    if neg {
        if mag >= (1u128 << 63) {
            i64::MIN
        } else {
            -(mag as i64)
        }
    } else if mag > i64::MAX as u128 {
        i64::MAX
    } else {
        mag as i64
    }
}

fn sat(x: i128) -> i64 {
    if x > i64::MAX as i128 {
        i64::MAX
    } else if x < i64::MIN as i128 {
        i64::MIN
    } else {
        x as i64
    }
}

/// round-half-even of p / 2^32 on the signed value (floor + remainder formulation).
fn ref_dfix_mul(a: i64, b: i64) -> i64 {
    let p = a as i128 * b as i128;
    let mut q = p >> 32; // floor
    let r = p & 0xffff_ffff; // 0 <= r < 2^32
    let half = 1i128 << 31;
    if r > half || (r == half && (q & 1) == 1) {
        q += 1;
    }
    sat(q)
}

fn ref_dfix_div(a: i64, b: i64) -> i64 {
    if b == 0 {
        return if a == 0 {
            0
        } else if a < 0 {
            i64::MIN
        } else {
            i64::MAX
        };
    }
    let n = (a as i128) << 32;
    let d = b as i128;
    let mut q = n.div_euclid(d);
    let r = n.rem_euclid(d); // 0 <= r < |d|
    // exact value = q + r/d  (d may be negative: div_euclid keeps r >= 0, value = q + r/d)
    // compare 2r with |d| ; the fractional part is r/|d| added towards +inf if d>0, towards -inf if d<0
    let ad = d.abs();
    let up = if d > 0 { 1 } else { -1 };
    if 2 * r > ad || (2 * r == ad && (q & 1) != 0) {
        q += up;
    }
    sat(q)
}

// ───────────────────────────── ops ─────────────────────────────

fn f(b: u32) -> f32 {
    f32::from_bits(b)
}

fn hx(b: u32) -> String {
    format!("{:08x}({:e})", b, f32::from_bits(b))
}

fn vec3(b: [u32; 3]) -> Vec3 {
    Vec3::from([f(b[0]), f(b[1]), f(b[2])])
}

fn quat(b: [u32; 4]) -> Quat {
    Quat::from([f(b[0]), f(b[1]), f(b[2]), f(b[3])]) // unchecked constructor: non-finite components allowed as INPUT
}

fn mat4(b: [u32; 16]) -> Mat4 {
    let mut a = [0f32; 16];
    for i in 0..16 {
        a[i] = f(b[i]);
    }
    Mat4::from(a)
}

fn trig_checks(o: &mut Out, x: f32, s: f32, c: f32) {
    if !(s >= -1.0 && s <= 1.0) {
        o.fail("sin-outside-[-1,1]");
    }
    if !(c >= -1.0 && c <= 1.0) {
        o.fail("cos-outside-[-1,1]");
    }
    let (sd, cd) = (s as f64, c as f64);
    if (sd * sd + cd * cd - 1.0).abs() > 1e-5 {
        o.fail("sin2+cos2-differs-from-1-by-more-than-1e-5");
    }
    if x.abs() <= 64.0 {
        if (sd - libm::sin(x as f64)).abs() > 1e-4 {
            o.fail("sin-differs-from-libm-f64-by-more-than-1e-4");
        }
        if (cd - libm::cos(x as f64)).abs() > 1e-4 {
            o.fail("cos-differs-from-libm-f64-by-more-than-1e-4");
        }
    }
}

pub fn build_ops(al: &Arc<Alph>) -> (Vec<Op>, Vec<Op>) {
    let mut ops: Vec<Op> = Vec::new();
    let nu = al.unary_n();
    let nb = al.b.len() as u64;
    let nt = al.t.len() as u64;
    let always: fn() -> PredFn = || Box::new(|_| true);

    // helper to register a unary f32 op
    let unary = |ops: &mut Vec<Op>, name: &'static str, min_distinct: usize, conflate: bool, body: fn(f32, u32, &mut Out)| {
        let (a1, a2, a3, a4) = (al.clone(), al.clone(), al.clone(), al.clone());
        ops.push(Op {
            name,
            n: nu,
            eval: Box::new(move |i, o| body(f(a1.unary(i)), a1.unary(i), o)),
            in_domain: Box::new(move |i| finite(a2.unary(i))),
            special: Box::new(move |i| special_f32(a3.unary(i))),
            describe: Box::new(move |i| json!({"x": hx(a4.unary(i)), "class": class_of(a4.unary(i))})),
            conflate,
            min_distinct,
            lean: al.thorough,
        });
    };

    // ── binary / ternary first (cheap), the big unary sweeps last so a wall cap only cuts those ──

    // B1: F32Scalar arithmetic
    {
        let (a1, a2, a3, a4) = (al.clone(), al.clone(), al.clone(), al.clone());
        ops.push(Op {
            name: "f32s_arith",
            n: nb * nb,
            eval: Box::new(move |i, o| {
                let (xb, yb) = (a1.b[(i / nb) as usize], a1.b[(i % nb) as usize]);
                let (x, y) = (F32Scalar::new(f(xb)), F32Scalar::new(f(yb)));
                let (cx, cy) = (f(canon_ref(xb)), f(canon_ref(yb)));
                let r = [sc(o, x + y), sc(o, x - y), sc(o, x * y), sc(o, x / y)];
                let want = [canon_ref_f(cx + cy), canon_ref_f(cx - cy), canon_ref_f(cx * cy), canon_ref_f(cx / cy)];
                if r != want {
                    o.fail("differs-from-canonicalised-IEEE-reference");
                }
                if (y + x).to_f32().to_bits() != r[0] || (y * x).to_f32().to_bits() != r[2] {
                    o.fail("add-or-mul-not-bitwise-commutative");
                }
            }),
            in_domain: Box::new(move |i| finite(a2.b[(i / nb) as usize]) && finite(a2.b[(i % nb) as usize])),
            special: Box::new(move |i| special_f32(a3.b[(i / nb) as usize]) || special_f32(a3.b[(i % nb) as usize])),
            describe: Box::new(move |i| json!({"a": hx(a4.b[(i / nb) as usize]), "b": hx(a4.b[(i % nb) as usize])})),
            conflate: false,
            lean: false,
            min_distinct: 100,
        });
    }
    // B2: Vec3 binary ops
    {
        let (a1, a2, a3, a4) = (al.clone(), al.clone(), al.clone(), al.clone());
        ops.push(Op {
            name: "vec3_bin",
            n: nb * nb,
            eval: Box::new(move |i, o| {
                let (p, q) = (vec3(a1.v[(i / nb) as usize]), vec3(a1.v[(i % nb) as usize]));
                let k = f(a1.b[(i % nb) as usize]);
                let add = p.add(&q).to_array();
                let sub = p.sub(&q).to_array();
                let cr = p.cross(&q).to_array();
                let sc = p.scale(k).to_array();
                for x in add.iter().chain(sub.iter()).chain(cr.iter()).chain(sc.iter()) {
                    o.r(*x);
                }
                o.r(p.dot(&q));
                // operator forms must agree with the method forms bit for bit
                let add2 = (p + q).to_array();
                let sub2 = (p - q).to_array();
                let sc2 = (p * k).to_array();
                let sc3 = (k * p).to_array();
                let bits = |a: [f32; 3]| [a[0].to_bits(), a[1].to_bits(), a[2].to_bits()];
                if bits(add) != bits(add2) || bits(sub) != bits(sub2) || bits(sc) != bits(sc2) || bits(sc) != bits(sc3) {
                    o.fail("operator-form-differs-from-method-form");
                }
            }),
            in_domain: Box::new(move |i| a2.v[(i / nb) as usize].iter().chain(a2.v[(i % nb) as usize].iter()).all(|x| finite(*x))),
            special: Box::new(move |i| a3.v[(i / nb) as usize].iter().chain(a3.v[(i % nb) as usize].iter()).any(|x| special_f32(*x))),
            describe: Box::new(move |i| json!({"p": a4.v[(i / nb) as usize].iter().map(|x| hx(*x)).collect::<Vec<_>>(), "q": a4.v[(i % nb) as usize].iter().map(|x| hx(*x)).collect::<Vec<_>>(), "k": hx(a4.b[(i % nb) as usize])})),
            conflate: false,
            lean: false,
            min_distinct: 100,
        });
    }
    // B3: quaternion product (conflated: Quat::new debug-asserts finiteness of the RESULT)
    {
        let (a1, a2, a3, a4) = (al.clone(), al.clone(), al.clone(), al.clone());
        ops.push(Op {
            name: "quat_mul",
            n: nb * nb,
            eval: Box::new(move |i, o| {
                let (p, q) = (quat(a1.q[(i / nb) as usize]), quat(a1.q[(i % nb) as usize]));
                for x in p.multiply(&q).to_array() {
                    o.r(x);
                }
            }),
            in_domain: Box::new(move |i| a2.q[(i / nb) as usize].iter().chain(a2.q[(i % nb) as usize].iter()).all(|x| finite(*x))),
            special: Box::new(move |i| a3.q[(i / nb) as usize].iter().chain(a3.q[(i % nb) as usize].iter()).any(|x| special_f32(*x))),
            describe: Box::new(move |i| json!({"p_xyzw": a4.q[(i / nb) as usize].iter().map(|x| hx(*x)).collect::<Vec<_>>(), "q_xyzw": a4.q[(i % nb) as usize].iter().map(|x| hx(*x)).collect::<Vec<_>>()})),
            conflate: true,
            lean: false,
            min_distinct: 50,
        });
    }
    // quaternion normalise / to_mat4 (unary over the quaternion alphabet)
    {
        let (a1, a2, a3, a4) = (al.clone(), al.clone(), al.clone(), al.clone());
        ops.push(Op {
            name: "quat_norm_mat4",
            n: nb,
            eval: Box::new(move |i, o| {
                let p = quat(a1.q[i as usize]);
                for x in p.normalize().to_array() {
                    o.r(x);
                }
                for x in p.to_mat4().to_array() {
                    o.r(x);
                }
                let m2 = Mat4::from_quat(&p).to_array();
                if m2.iter().zip(p.to_mat4().to_array().iter()).any(|(a, b)| a.to_bits() != b.to_bits()) {
                    o.fail("Mat4::from_quat-differs-from-Quat::to_mat4");
                }
            }),
            in_domain: Box::new(move |i| a2.q[i as usize].iter().all(|x| finite(*x))),
            special: Box::new(move |i| a3.q[i as usize].iter().any(|x| special_f32(*x))),
            describe: Box::new(move |i| json!({"q_xyzw": a4.q[i as usize].iter().map(|x| hx(*x)).collect::<Vec<_>>()})),
            conflate: true,
            lean: false,
            min_distinct: 8,
        });
    }
    // B8: axis-angle constructors, finite angle only
    {
        let (a1, a2, a3, a4) = (al.clone(), al.clone(), al.clone(), al.clone());
        ops.push(Op {
            name: "quat_axis_angle",
            n: nb * nb,
            eval: Box::new(move |i, o| {
                let ang = a1.b[(i % nb) as usize];
                if !finite(ang) {
                    return; // outside the stated domain (see profile_dependent_panics)
                }
                let ax = vec3(a1.v[(i / nb) as usize]);
                for x in Quat::from_axis_angle(ax, f(ang)).to_array() {
                    o.r(x);
                }
                for x in Mat4::rotation_axis_angle(ax, f(ang)).to_array() {
                    o.r(x);
                }
            }),
            in_domain: Box::new(move |i| finite(a2.b[(i % nb) as usize]) && a2.v[(i / nb) as usize].iter().all(|x| finite(*x))),
            special: Box::new(move |i| special_f32(a3.b[(i % nb) as usize]) || a3.v[(i / nb) as usize].iter().any(|x| special_f32(*x))),
            describe: Box::new(move |i| json!({"axis": a4.v[(i / nb) as usize].iter().map(|x| hx(*x)).collect::<Vec<_>>(), "angle": hx(a4.b[(i % nb) as usize])})),
            conflate: true,
            lean: false,
            min_distinct: 50,
        });
    }
    // B4: Mat4 product and transforms
    {
        let nm = al.m.len() as u64;
        let (a1, a2, a3, a4) = (al.clone(), al.clone(), al.clone(), al.clone());
        ops.push(Op {
            name: "mat4_mul",
            n: nm * nm,
            eval: Box::new(move |i, o| {
                let (p, q) = (mat4(a1.m[(i / nm) as usize]), mat4(a1.m[(i % nm) as usize]));
                let pq = p.multiply(&q).to_array();
                for x in pq {
                    o.r(x);
                }
                let v = vec3(a1.v[(i % nm) as usize]);
                for x in p.transform_point(&v).to_array() {
                    o.r(x);
                }
                for x in p.transform_direction(&v).to_array() {
                    o.r(x);
                }
                let pq2 = (p * q).to_array();
                let mut pq3 = p;
                pq3 *= q;
                if pq.iter().zip(pq2.iter()).any(|(a, b)| a.to_bits() != b.to_bits()) || pq.iter().zip(pq3.to_array().iter()).any(|(a, b)| a.to_bits() != b.to_bits()) {
                    o.fail("operator-form-differs-from-method-form");
                }
            }),
            in_domain: Box::new(move |i| a2.m[(i / nm) as usize].iter().chain(a2.m[(i % nm) as usize].iter()).all(|x| finite(*x))),
            special: Box::new(move |i| a3.m[(i / nm) as usize].iter().chain(a3.m[(i % nm) as usize].iter()).any(|x| special_f32(*x))),
            describe: Box::new(move |i| json!({"p_matrix_index": i / nm, "q_matrix_index": i % nm, "p": a4.m[(i / nm) as usize].iter().map(|x| format!("{x:08x}")).collect::<Vec<_>>().join(" "), "q": a4.m[(i % nm) as usize].iter().map(|x| format!("{x:08x}")).collect::<Vec<_>>().join(" ")})),
            conflate: false,
            lean: false,
            min_distinct: 100,
        });
    }
    // B5: DFix64 arithmetic vs integer reference
    {
        let ni = al.iraw.len() as u64;
        let (a1, a3, a4) = (al.clone(), al.clone(), al.clone());
        ops.push(Op {
            name: "dfix_arith",
            n: ni * ni,
            eval: Box::new(move |i, o| {
                let (x, y) = (a1.iraw[(i / ni) as usize], a1.iraw[(i % ni) as usize]);
                let (dx, dy) = (DFix64::from_raw(x), DFix64::from_raw(y));
                let r = [(dx + dy).raw(), (dx - dy).raw(), (dx * dy).raw(), (dx / dy).raw(), (-dx).raw()];
                for v in r {
                    o.i(v);
                }
                let want = [
                    sat(x as i128 + y as i128),
                    sat(x as i128 - y as i128),
                    ref_dfix_mul(x, y),
                    ref_dfix_div(x, y),
                    sat(-(x as i128)),
                ];
                if r[0] != want[0] || r[1] != want[1] || r[4] != want[4] {
                    o.fail("add/sub/neg-differs-from-saturating-integer-reference");
                }
                if r[2] != want[2] {
                    o.fail("mul-differs-from-round-half-even-integer-reference");
                }
                if r[3] != want[3] {
                    o.fail("div-differs-from-round-half-even-integer-reference");
                }
                if (dy * dx).raw() != r[2] || (dy + dx).raw() != r[0] {
                    o.fail("add-or-mul-not-commutative");
                }
            }),
            in_domain: always(),
            special: Box::new(move |i| {
                let (x, y) = (a3.iraw[(i / ni) as usize], a3.iraw[(i % ni) as usize]);
                x == 0 || y == 0 || x.unsigned_abs() >= 1 << 62 || y.unsigned_abs() >= 1 << 62 || (x as i128 * y as i128) & 0xffff_ffff == 0x8000_0000
            }),
            describe: Box::new(move |i| json!({"a_raw": a4.iraw[(i / ni) as usize], "b_raw": a4.iraw[(i % ni) as usize]})),
            conflate: false,
            lean: false,
            min_distinct: 100,
        });
    }
    // B6: PRNG next_int over seeds x ranges
    {
        let nr = al.ranges.len() as u64;
        let ns = al.seeds.len() as u64;
        let (a1, a3, a4) = (al.clone(), al.clone(), al.clone());
        ops.push(Op {
            name: "prng_next_int",
            n: ns * nr,
            eval: Box::new(move |i, o| {
                let (s0, s1) = a1.seeds[(i / nr) as usize];
                let (lo, hi) = a1.ranges[(i % nr) as usize];
                let mut p = Prng::from_seed(s0, s1);
                let mut p2 = p.clone();
                for _ in 0..8 {
                    let v = p.next_int(lo, hi);
                    o.i(v as i64);
                    if v < lo || v > hi {
                        o.fail("next_int-outside-[min,max]");
                    }
                    if p2.next_int(lo, hi) != v {
                        o.fail("cloned-generator-diverges");
                    }
                }
                let mut p3 = Prng::from_seed_u64(s0 ^ s1.rotate_left(17));
                for _ in 0..4 {
                    let v = p3.next_int(lo, hi);
                    o.i(v as i64);
                    if v < lo || v > hi {
                        o.fail("next_int-outside-[min,max]");
                    }
                }
            }),
            in_domain: always(),
            special: Box::new(move |i| {
                let (lo, hi) = a3.ranges[(i % nr) as usize];
                lo != hi
            }),
            describe: Box::new(move |i| json!({"seed": [format!("{:016x}", a4.seeds[(i / nr) as usize].0), format!("{:016x}", a4.seeds[(i / nr) as usize].1)], "min": a4.ranges[(i % nr) as usize].0, "max": a4.ranges[(i % nr) as usize].1})),
            conflate: false,
            lean: false,
            min_distinct: 100,
        });
        let (a1, a4) = (al.clone(), al.clone());
        ops.push(Op {
            name: "prng_next_f32",
            n: ns,
            eval: Box::new(move |i, o| {
                let (s0, s1) = a1.seeds[i as usize];
                let mut p = Prng::from_seed(s0, s1);
                for _ in 0..16 {
                    let v = p.next_f32();
                    o.r(v);
                    if !(v >= 0.0 && v < 1.0) {
                        o.fail("next_f32-outside-[0,1)");
                    }
                }
            }),
            in_domain: always(),
            special: always(),
            describe: Box::new(move |i| json!({"seed": [format!("{:016x}", a4.seeds[i as usize].0), format!("{:016x}", a4.seeds[i as usize].1)]})),
            conflate: false,
            lean: false,
            min_distinct: 32,
        });
    }

    // ternary helpers
    let tri = |ops: &mut Vec<Op>, name: &'static str, min_distinct: usize, body: fn(u32, u32, u32, &mut Out)| {
        let (a1, a2, a3, a4) = (al.clone(), al.clone(), al.clone(), al.clone());
        let idx = move |i: u64| ((i / (nt * nt)) as usize, ((i / nt) % nt) as usize, (i % nt) as usize);
        ops.push(Op {
            name,
            n: nt * nt * nt,
            eval: Box::new(move |i, o| {
                let (x, y, z) = idx(i);
                body(a1.t[x], a1.t[y], a1.t[z], o)
            }),
            in_domain: Box::new(move |i| {
                let (x, y, z) = idx(i);
                finite(a2.t[x]) && finite(a2.t[y]) && finite(a2.t[z])
            }),
            special: Box::new(move |i| {
                let (x, y, z) = idx(i);
                special_f32(a3.t[x]) || special_f32(a3.t[y]) || special_f32(a3.t[z])
            }),
            describe: Box::new(move |i| {
                let (x, y, z) = idx(i);
                json!({"a": hx(a4.t[x]), "b": hx(a4.t[y]), "c": hx(a4.t[z])})
            }),
            conflate: false,
            min_distinct,
            lean: false,
        });
    };
    tri(&mut ops, "f32s_compose", 100, |a, b, c, o| {
        let (x, y, z) = (F32Scalar::new(f(a)), F32Scalar::new(f(b)), F32Scalar::new(f(c)));
        sc(o, x * y + z);
        sc(o, x * (y + z));
        sc(o, (x - y) / z);
        sc(o, -(x * y));
        sc(o, -x - y - z);
    });
    tri(&mut ops, "vec3_norm3", 100, |a, b, c, o| {
        let v = Vec3::new(f(a), f(b), f(c));
        let len = v.length();
        o.r(len);
        o.r(v.length_squared());
        for x in v.normalize().to_array() {
            o.r(x);
        }
        let d = f(a) * f(a) + f(b) * f(b) + f(c) * f(c);
        let want = if !d.is_finite() || d <= 0.0 { 0.0 } else { d.sqrt() };
        if len.to_bits() != want.to_bits() {
            o.fail("length-differs-from-correctly-rounded-sqrt-reference");
        }
    });
    tri(&mut ops, "clamp3", 50, |a, b, c, o| {
        let (v, lo, hi) = (f(a), f(b), f(c));
        if lo.is_nan() || hi.is_nan() || !(lo <= hi) {
            return; // documented panic: outside the domain
        }
        let r = warp_math::clamp(v, lo, hi);
        o.r(r);
        if !v.is_nan() && !(r >= lo && r <= hi) {
            o.fail("clamp-result-outside-[min,max]");
        }
    });
    tri(&mut ops, "mat4_euler", 100, |a, b, c, o| {
        if !(finite(a) && finite(b) && finite(c)) {
            return;
        }
        for x in Mat4::rotation_from_euler(f(a), f(b), f(c)).to_array() {
            o.r(x);
            if !(x.abs() <= 1.0 + 1e-5) {
                o.fail("rotation-matrix-entry-magnitude-above-1");
            }
        }
    });

    // ── unary sweeps ──
    unary(&mut ops, "f32s_new", 100, false, |x, b, o| {
        let a = F32Scalar::new(x);
        let r = sc(o, a);
        let r2 = sc(o, F32Scalar::from_f32(x));
        let c = canonicalize_f32(x).to_bits();
        o.push(T_S, c as u64);
        if r != canon_ref(b) || r2 != r {
            o.fail("differs-from-canonical-form-reference");
        }
        if c != r {
            o.fail("abi-canonicalize_f32-differs-from-F32Scalar::new");
        }
        if !(a == a) || a.cmp(&a) != core::cmp::Ordering::Equal {
            o.fail("Eq/Ord-not-reflexive");
        }
    });
    unary(&mut ops, "f32s_neg", 100, false, |x, b, o| {
        let a = F32Scalar::new(x);
        let r = sc(o, -a);
        let want = canon_ref((f(canon_ref(b)).to_bits()) ^ 0x8000_0000);
        if r != want {
            o.fail("differs-from-canonical(-canonical(x))-reference");
        }
        if sc(o, -(-a)) != a.to_f32().to_bits() {
            o.fail("double-negation-not-identity");
        }
        sc(o, F32Scalar::zero() - a);
    });
    unary(&mut ops, "f32s_trig", 100, false, |x, _b, o| {
        if !x.is_finite() {
            return; // outside the stated domain: see profile_dependent_panics
        }
        let a = F32Scalar::new(x);
        // primary entry point, always hashed
        let (s, c) = a.sin_cos();
        let sb = sc(o, s);
        let cb = sc(o, c);
        // the sin()/cos() wrappers: hashed in every build except in the lean 2^32 sweeps, where
        // they are compared with the primary in the oracle pass only
        if !o.lean || o.oracles {
            let (s1, c1) = (a.sin(), a.cos());
            let same = s1.to_f32().to_bits() == sb && c1.to_f32().to_bits() == cb;
            if !o.lean {
                sc(o, s1);
                sc(o, c1);
            }
            if !same {
                o.fail("sin_cos-inconsistent-with-sin/cos");
            }
        }
        if o.oracles {
            // not hashed: the values for -x are in the stream at the index of -x
            let na = -a;
            if na.sin().to_f32().to_bits() != (-s).to_f32().to_bits() {
                o.fail("sin-not-exactly-odd");
            }
            if na.cos().to_f32().to_bits() != cb {
                o.fail("cos-not-exactly-even");
            }
            trig_checks(o, a.to_f32(), s.to_f32(), c.to_f32());
        }
    });
    unary(&mut ops, "fixed_q32_32", 100, false, |x, _b, o| {
        let raw = fixed_q32_32::from_f32(x);
        o.i(raw);
        if raw != ref_q32_from_f32(x) {
            o.fail("from_f32-differs-from-round-half-even-reference");
        }
        let back = fixed_q32_32::to_f32(raw);
        let bb = o.r(back);
        let want = (raw as f32) * (1.0 / 4_294_967_296.0);
        if bb != want.to_bits() {
            o.fail("to_f32-differs-from-correctly-rounded-reference");
        }
        if bb == 0x8000_0000 || class_of(bb) == "subnormal" || class_of(bb) == "nan" {
            o.fail("to_f32-result-not-canonical");
        }
    });
    unary(&mut ops, "abi_fx_from_f32", 100, false, |x, _b, o| {
        let r = fx_from_f32(x);
        o.i(r);
        if r != ref_fx_trunc(x) {
            o.fail("differs-from-integer-truncation-reference");
        }
    });
    unary(&mut ops, "dfix_unary", 100, false, |x, _b, o| {
        let d = DFix64::from_f32(x);
        o.i(d.raw());
        if d.raw() != fixed_q32_32::from_f32(x) {
            o.fail("DFix64::from_f32-differs-from-fixed_q32_32::from_f32");
        }
        o.r(d.to_f32());
        let nd = -d;
        o.i(nd.raw());
        let (s, c) = d.sin_cos();
        o.i(s.raw());
        o.i(c.raw());
        if !o.lean || o.oracles {
            let (s1, c1) = (d.sin(), d.cos());
            if !o.lean {
                o.i(s1.raw());
                o.i(c1.raw());
            }
            if s1 != s || c1 != c {
                o.fail("sin_cos-inconsistent-with-sin/cos");
            }
        }
        let one = DFix64::ONE.raw();
        if s.raw().abs() > one || c.raw().abs() > one {
            o.fail("fixed-lane-sin/cos-outside-[-1,1]");
        }
        if !o.oracles {
            return;
        }
        let (ns, nc) = (nd.sin(), nd.cos());
        if ns != -s {
            o.fail("fixed-lane-sin-not-exactly-odd");
        }
        if nc != c {
            o.fail("fixed-lane-cos-not-exactly-even");
        }
    });
    unary(&mut ops, "sqrt_paths", 100, false, |x, _b, o| {
        let len = Vec3::new(x, 0.0, 0.0).length();
        o.r(len);
        let d = x * x + 0.0 * 0.0 + 0.0 * 0.0;
        let want = if !d.is_finite() || d <= 0.0 { 0.0 } else { d.sqrt() };
        if len.to_bits() != want.to_bits() {
            o.fail("det_sqrt-differs-from-correctly-rounded-sqrt");
        }
        for v in Vec3::new(x, x, x).normalize().to_array() {
            o.r(v);
        }
        for v in Vec3::new(x, 0.0, 0.0).normalize().to_array() {
            o.r(v);
        }
        for v in Quat::from([x, 0.0, 0.0, 1.0]).normalize().to_array() {
            o.r(v);
        }
    });
    unary(&mut ops, "deg_rad", 100, false, |x, _b, o| {
        o.r(warp_math::deg_to_rad(x));
        o.r(warp_math::rad_to_deg(x));
    });
    unary(&mut ops, "mat4_rot", 100, false, |x, _b, o| {
        if !x.is_finite() {
            return;
        }
        let rx = Mat4::rotation_x(x).to_array();
        let (c, s, ns) = (rx[5], rx[6], rx[9]);
        for v in [rx[5], rx[6], rx[9], rx[10]] {
            o.r(v);
        }
        let same = |a: f32, b: f32| a.to_bits() == b.to_bits();
        // rotation_y / rotation_z: hashed except in the lean 2^32 sweeps (compared there in the oracle pass)
        if !o.lean || o.oracles {
            let ry = Mat4::rotation_y(x).to_array();
            let rz = Mat4::rotation_z(x).to_array();
            if !o.lean {
                for v in [ry[0], ry[2], ry[8], ry[10], rz[0], rz[1], rz[4], rz[5]] {
                    o.r(v);
                }
            }
            if !(same(rx[10], c) && same(ry[0], c) && same(ry[10], c) && same(rz[0], c) && same(rz[5], c) && same(ry[8], s) && same(rz[1], s) && same(ry[2], ns) && same(rz[4], ns)) {
                o.fail("rotation_x/y/z-disagree-on-sin/cos");
            }
        }
        if !o.oracles {
            return;
        }
        let nx = Mat4::rotation_x(-x).to_array();
        if !same(nx[5], c) {
            o.fail("cos-not-exactly-even");
        }
        if !same(nx[6], ns) || !same(nx[9], s) {
            o.fail("sin-not-exactly-odd");
        }
        for v in [c, s, ns] {
            if v.to_bits() == 0x8000_0000 {
                o.fail("negative-zero-after-canonicalize_zero");
            }
        }
        trig_checks(o, x, s, c);
    });

    // ── outside the stated domain: non-finite angles reaching sin_cos_f32 (evidence only) ──
    let mut outside: Vec<Op> = Vec::new();
    let nonfin: Vec<u32> = al.b.iter().copied().filter(|x| !finite(*x)).collect();
    let mk = |name: &'static str, body: fn(f32, &mut Out)| {
        let (n1, n2) = (nonfin.clone(), nonfin.clone());
        Op {
            name,
            n: n1.len() as u64,
            eval: Box::new(move |i, o| body(f(n1[i as usize]), o)),
            in_domain: Box::new(|_| false),
            special: Box::new(|_| true),
            describe: Box::new(move |i| json!({"x": hx(n2[i as usize])})),
            conflate: false,
            lean: false,
            min_distinct: 0,
        }
    };
    outside.push(mk("F32Scalar::sin_cos(non-finite)", |x, o| {
        let (s, c) = F32Scalar::new(x).sin_cos();
        sc(o, s);
        sc(o, c);
    }));
    outside.push(mk("Mat4::rotation_x(non-finite)", |x, o| {
        let m = Mat4::rotation_x(x).to_array();
        o.r(m[5]);
        o.r(m[6]);
    }));
    outside.push(mk("Quat::from_axis_angle(unit_x, non-finite)", |x, o| {
        for v in Quat::from_axis_angle(Vec3::UNIT_X, x).to_array() {
            o.r(v);
        }
    }));
    (ops, outside)
}
