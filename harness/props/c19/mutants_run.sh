#!/bin/bash
# like /verif/tools/mutant_run.sh but also builds the verifrel/verifdbg lanes C19 needs (what ./check does via USES)
set -uo pipefail
WT=${WT:-/tmp/wt-c19}; TIER=${TIER:-quick}
H="$WT/.verif-harness"; OUT="$WT/.verif-out"
for m in "$@"; do
  (cd $WT && git checkout -q -- . )
  python3 /verif/harness/props/c19/mutants_apply.py $WT $m > /var/tmp/c19-mut/logs/$m.log 2>&1 || { echo "$m APPLY-FAILED" | tee -a /var/tmp/c19-mut/summary.txt; continue; }
  (cd $WT && git diff) > /var/tmp/c19-mut/logs/$m.diff
  rm -rf "$H" "$OUT"; mkdir -p "$H" "$OUT"
  rsync -a --exclude target /verif/harness/ "$H/"
  find "$H" -name Cargo.toml -o -name config.toml | xargs sed -i "s#/repo/#$WT/#g; s#/verif/target#$WT/.verif-target#g"
  cp /verif/known_findings.json "$OUT/" 2>/dev/null || true
  ( cd "$H/props/c19" && export CARGO_NET_OFFLINE=true RUSTFLAGS=-Awarnings && \
    cargo build --offline --profile verif --quiet && cargo build --offline --profile verifrel --quiet && cargo build --offline --profile verifdbg --quiet ) >> /var/tmp/c19-mut/logs/$m.log 2>&1 \
    || { echo "$m BUILD-FAILED" | tee -a /var/tmp/c19-mut/summary.txt; continue; }
  VERIF_ROOT="$OUT" VERIF_TIER="$TIER" VERIF_BUILD=main VERIF_BIN_PROD="$WT/.verif-target/verifrel/c19" VERIF_BIN_DBG="$WT/.verif-target/verifdbg/c19" \
    "$WT/.verif-target/verif/c19" --tier "$TIER" >> /var/tmp/c19-mut/logs/$m.log 2>&1
  echo "$m exit=$?" | tee -a /var/tmp/c19-mut/summary.txt
done
(cd $WT && git checkout -q -- . )
