#!/usr/bin/env python3
import sys
wt, name = sys.argv[1], sys.argv[2]
M = wt + '/crates/warp-math/src/'
def sub(path, old, new):
    s = open(path).read()
    assert s.count(old) >= 1, (path, old)
    open(path, 'w').write(s.replace(old, new, 1))
if name == 'm1_neg_canon_before':
    sub(M+'scalar.rs', "    fn neg(self) -> Self {\n        Self::new(-self.value)\n    }", "    fn neg(self) -> Self {\n        Self {\n            value: -Self::new(self.value).value,\n        }\n    }")
elif name == 'm2_quadrant_by_division':
    sub(M+'trig.rs', """    let (quadrant, a) = if r < FRAC_PI_2 {
        (0_u8, r)
    } else if r < PI {
        (1_u8, r - FRAC_PI_2)
    } else if r < FRAC_3PI_2 {
        (2_u8, r - PI)
    } else {
        (3_u8, r - FRAC_3PI_2)
    };""", """    #[allow(clippy::cast_possible_truncation, clippy::cast_sign_loss)]
    let quadrant = (r / FRAC_PI_2) as u8;
    let a = r - f32::from(quadrant) * FRAC_PI_2;""")
elif name == 'm2b_quadrant2_wrong_offset':
    sub(M+'trig.rs', "        (2_u8, r - PI)", "        (2_u8, r - FRAC_PI_2)")
elif name == 'm2c_quadrant1_cos_sign':
    sub(M+'trig.rs', "        1 => (c, -s),", "        1 => (c, s),")
elif name == 'm3_no_subnormal_flush':
    sub(M+'scalar.rs', """        } else if num.is_subnormal() {
            Self {
                value: f32::from_bits(0),
            }
        } else {""", "        } else {")
elif name == 'm4_cfg_debug_fma_dot':
    sub(M+'vec3.rs', """        self.component(0) * other.component(0)
            + self.component(1) * other.component(1)
            + self.component(2) * other.component(2)
    }""", """        if cfg!(debug_assertions) {
            self.component(0) * other.component(0)
                + self.component(1) * other.component(1)
                + self.component(2) * other.component(2)
        } else {
            self.component(0).mul_add(
                other.component(0),
                self.component(1)
                    .mul_add(other.component(1), self.component(2) * other.component(2)),
            )
        }
    }""")
elif name == 'm5_div_no_canon':
    sub(M+'scalar.rs', "        Self::new(self.value / rhs.value)", "        Self {\n            value: self.value / rhs.value,\n        }")
elif name == 'm6_fixed_tie_rounds_up':
    sub(M+'fixed_q32_32.rs', """    } else if (q & 1) == 1 {
        q + 1
    } else {
        q
    }
}

fn round_shift_right_u128""", """    } else {
        q + 1
    }
}

fn round_shift_right_u128""")
elif name == 'm7_trig_no_abs_reduction':
    sub(M+'trig.rs', "    let sign_sin = angle.is_sign_negative();\n    let r = angle.abs().rem_euclid(TAU);", "    let sign_sin = false;\n    let r = angle.rem_euclid(TAU);")
elif name == 'm8_cfg_debug_fma_interp':
    sub(M+'trig.rs', "    y0 + frac * (y1 - y0)\n}", "    if cfg!(debug_assertions) {\n        y0 + frac * (y1 - y0)\n    } else {\n        frac.mul_add(y1 - y0, y0)\n    }\n}")
else:
    sys.exit('unknown mutant ' + name)
print('applied', name)
