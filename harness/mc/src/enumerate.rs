//! Finite-space enumerators.  All are exhaustive over the stated space; closed-form sizes are
//! checked by `selftest`.

/// All permutations of `0..n` (Heap's algorithm), calling `f` on each.  Returns the count.
pub fn permutations(n: usize, mut f: impl FnMut(&[usize])) -> u64 {
    let mut a: Vec<usize> = (0..n).collect();
    let mut c = vec![0usize; n];
    let mut count = 1u64;
    f(&a);
    let mut i = 0;
    while i < n {
        if c[i] < i {
            if i % 2 == 0 {
                a.swap(0, i);
            } else {
                a.swap(c[i], i);
            }
            f(&a);
            count += 1;
            c[i] += 1;
            i = 0;
        } else {
            c[i] = 0;
            i += 1;
        }
    }
    count
}

/// All permutations of `0..n` collected.
pub fn all_permutations(n: usize) -> Vec<Vec<usize>> {
    let mut v = Vec::new();
    permutations(n, |p| v.push(p.to_vec()));
    v
}

/// All k-subsets of `0..n` in lexicographic order.
pub fn subsets_k(n: usize, k: usize) -> Vec<Vec<usize>> {
    let mut out = Vec::new();
    let mut cur = Vec::new();
    fn rec(start: usize, n: usize, k: usize, cur: &mut Vec<usize>, out: &mut Vec<Vec<usize>>) {
        if cur.len() == k {
            out.push(cur.clone());
            return;
        }
        for i in start..n {
            cur.push(i);
            rec(i + 1, n, k, cur, out);
            cur.pop();
        }
    }
    rec(0, n, k, &mut cur, &mut out);
    out
}

/// All subsets of `0..n` with size in `lo..=hi`.
pub fn subsets_range(n: usize, lo: usize, hi: usize) -> Vec<Vec<usize>> {
    let mut out = Vec::new();
    for k in lo..=hi.min(n) {
        out.extend(subsets_k(n, k));
    }
    out
}

/// All sequences of length `len` over `0..alphabet` (odometer order).
pub fn sequences(alphabet: usize, len: usize, mut f: impl FnMut(&[usize])) -> u64 {
    if alphabet == 0 && len > 0 {
        return 0;
    }
    let mut a = vec![0usize; len];
    let mut count = 0u64;
    loop {
        f(&a);
        count += 1;
        let mut i = len;
        loop {
            if i == 0 {
                return count;
            }
            i -= 1;
            a[i] += 1;
            if a[i] < alphabet {
                break;
            }
            a[i] = 0;
        }
    }
}

/// All sequences of length `len` over `0..k` in which every symbol of `0..k` occurs at least
/// once ("covering" sequences: all permutations plus all duplication patterns).
pub fn covering_sequences(k: usize, len: usize) -> Vec<Vec<usize>> {
    let mut out = Vec::new();
    sequences(k, len, |s| {
        let mut seen = vec![false; k];
        for &x in s {
            seen[x] = true;
        }
        if seen.iter().all(|b| *b) {
            out.push(s.to_vec());
        }
    });
    out
}

/// Cartesian product of index ranges `dims[i]`.
pub fn product(dims: &[usize], mut f: impl FnMut(&[usize])) -> u64 {
    if dims.iter().any(|d| *d == 0) {
        return 0;
    }
    let mut a = vec![0usize; dims.len()];
    let mut count = 0u64;
    loop {
        f(&a);
        count += 1;
        let mut i = dims.len();
        loop {
            if i == 0 {
                return count;
            }
            i -= 1;
            a[i] += 1;
            if a[i] < dims[i] {
                break;
            }
            a[i] = 0;
        }
    }
}

/// Every byte string of length exactly `len` whose first byte is `first` (used to shard the
/// ≤3-byte sweep over rayon).
pub fn byte_strings_with_first(first: u8, len: usize, mut f: impl FnMut(&[u8])) -> u64 {
    assert!(len >= 1);
    let mut buf = vec![0u8; len];
    buf[0] = first;
    let mut count = 0u64;
    if len == 1 {
        f(&buf);
        return 1;
    }
    loop {
        f(&buf);
        count += 1;
        let mut i = len;
        loop {
            if i == 1 {
                return count;
            }
            i -= 1;
            if buf[i] == 0xFF {
                buf[i] = 0;
            } else {
                buf[i] += 1;
                break;
            }
        }
    }
}

/// Closed-form self-test of the enumerators.
pub fn selftest() -> Result<(), String> {
    let fact = |n: u64| (1..=n).product::<u64>();
    for n in 0..=7usize {
        let c = permutations(n, |_| {});
        if c != fact(n as u64).max(1) {
            return Err(format!("permutations({n}) = {c}"));
        }
        let mut set = std::collections::BTreeSet::new();
        permutations(n, |p| {
            set.insert(p.to_vec());
        });
        if set.len() as u64 != c {
            return Err(format!("permutations({n}) has duplicates"));
        }
    }
    if subsets_k(6, 3).len() != 20 {
        return Err("subsets_k".into());
    }
    if sequences(3, 4, |_| {}) != 81 {
        return Err("sequences".into());
    }
    // surjections 4 -> 3 = 36
    if covering_sequences(3, 4).len() != 36 {
        return Err("covering".into());
    }
    if product(&[2, 3, 4], |_| {}) != 24 {
        return Err("product".into());
    }
    if byte_strings_with_first(7, 3, |_| {}) != 65536 {
        return Err("byte_strings".into());
    }
    Ok(())
}
