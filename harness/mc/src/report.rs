//! Evidence / verdict accumulator.  See crate docs.

use serde_json::{json, Map, Value};
use std::collections::{BTreeMap, BTreeSet, HashSet};
use std::path::PathBuf;
use std::sync::atomic::{AtomicBool, AtomicU64, Ordering};
use std::sync::Mutex;
use std::time::Instant;

/// Tier selected on the command line (`--tier`) or by `VERIF_TIER`.
#[derive(Clone, Copy, PartialEq, Eq, Debug)]
pub enum Tier {
    Quick,
    Thorough,
}

/// Evidence level (EVIDENCE.schema.json `level`).
#[derive(Clone, Copy, PartialEq, Eq, Debug)]
pub enum Level {
    Exploration,
    FaultEnumeration,
    ModelChecking,
}

impl Level {
    fn as_str(self) -> &'static str {
        match self {
            Level::Exploration => "exploration",
            Level::FaultEnumeration => "fault_enumeration",
            Level::ModelChecking => "model_checking",
        }
    }
}

struct Inner {
    distinct: HashSet<u128>,
    samples: Vec<Value>,
    counters: BTreeMap<String, u64>,
    outcomes: BTreeMap<String, u64>,
    notes: BTreeMap<String, Value>,
    assumptions: Vec<String>,
    violations: BTreeMap<String, (u64, Value)>,
    guards: BTreeMap<String, bool>,
    machinery: Vec<String>,
    rule: String,
    caps: Vec<String>,
}

/// Thread-safe accumulator; one per run.
pub struct Report {
    pub id: String,
    pub tier: Tier,
    pub level: Level,
    pub seed: i64,
    pub replay: Option<PathBuf>,
    root: PathBuf,
    start: Instant,
    evaluations: AtomicU64,
    states: AtomicU64,
    transitions: AtomicU64,
    traces: AtomicU64,
    total_violations: AtomicU64,
    not_exhaustive: AtomicBool,
    cap_s: f64,
    inner: Mutex<Inner>,
    max_samples: usize,
}

fn key128(bytes: &[u8]) -> u128 {
    let h = blake3::hash(bytes);
    let mut a = [0u8; 16];
    a.copy_from_slice(&h.as_bytes()[..16]);
    u128::from_le_bytes(a)
}

impl Report {
    /// Build from process arguments / environment.
    pub fn new(id: &str, level: Level) -> Report {
        let args: Vec<String> = std::env::args().collect();
        let mut tier = match std::env::var("VERIF_TIER").ok().as_deref() {
            Some("thorough") => Tier::Thorough,
            _ => Tier::Quick,
        };
        let mut replay = None;
        let mut i = 1;
        while i < args.len() {
            match args[i].as_str() {
                "--tier" if i + 1 < args.len() => {
                    tier = if args[i + 1] == "thorough" {
                        Tier::Thorough
                    } else {
                        Tier::Quick
                    };
                    i += 1;
                }
                "--replay" if i + 1 < args.len() => {
                    replay = Some(PathBuf::from(&args[i + 1]));
                    i += 1;
                }
                _ => {}
            }
            i += 1;
        }
        let seed = std::env::var("VERIF_SEED")
            .ok()
            .and_then(|s| s.parse::<i64>().ok())
            .unwrap_or(0);
        let root = PathBuf::from(std::env::var("VERIF_ROOT").unwrap_or_else(|_| "/verif".into()));
        let cap_s = std::env::var("VERIF_CAP_S")
            .ok()
            .and_then(|s| s.parse::<f64>().ok())
            .unwrap_or(match tier {
                Tier::Quick => 240.0,
                Tier::Thorough => 3600.0,
            });
        Report {
            id: id.to_string(),
            tier,
            level,
            seed,
            replay,
            root,
            start: Instant::now(),
            evaluations: AtomicU64::new(0),
            states: AtomicU64::new(0),
            transitions: AtomicU64::new(0),
            traces: AtomicU64::new(0),
            total_violations: AtomicU64::new(0),
            not_exhaustive: AtomicBool::new(false),
            cap_s,
            inner: Mutex::new(Inner {
                distinct: HashSet::new(),
                samples: Vec::new(),
                counters: BTreeMap::new(),
                outcomes: BTreeMap::new(),
                notes: BTreeMap::new(),
                assumptions: Vec::new(),
                violations: BTreeMap::new(),
                guards: BTreeMap::new(),
                machinery: Vec::new(),
                rule: String::new(),
                caps: Vec::new(),
            }),
            max_samples: 8,
        }
    }

    pub fn quick(&self) -> bool {
        self.tier == Tier::Quick
    }
    pub fn thorough(&self) -> bool {
        self.tier == Tier::Thorough
    }
    /// Pick by tier.
    pub fn pick<T>(&self, quick: T, thorough: T) -> T {
        if self.quick() {
            quick
        } else {
            thorough
        }
    }
    pub fn elapsed_s(&self) -> f64 {
        self.start.elapsed().as_secs_f64()
    }
    /// True when the internal wall cap has been exceeded.  Callers stop enumerating and call
    /// [`Report::cap_hit`] so the evidence says what was fully covered.
    pub fn over_budget(&self) -> bool {
        self.elapsed_s() > self.cap_s
    }
    /// Fraction of the wall cap available to one phase.
    pub fn over_budget_frac(&self, frac: f64) -> bool {
        self.elapsed_s() > self.cap_s * frac
    }
    /// Record that a cap stopped an enumeration (evidence gets `exhaustive:false`).
    pub fn cap_hit(&self, what: &str) {
        self.not_exhaustive.store(true, Ordering::Relaxed);
        let mut g = self.inner.lock().unwrap();
        if g.caps.len() < 32 {
            g.caps.push(what.to_string());
        }
    }
    /// Mark the run as a stated subset (not the full finite space) without a cap being hit.
    pub fn not_exhaustive(&self) {
        self.not_exhaustive.store(true, Ordering::Relaxed);
    }

    pub fn rule(&self, s: &str) {
        self.inner.lock().unwrap().rule = s.to_string();
    }
    pub fn assume(&self, s: &str) {
        self.inner.lock().unwrap().assumptions.push(s.to_string());
    }
    pub fn eval(&self, n: u64) {
        self.evaluations.fetch_add(n, Ordering::Relaxed);
    }
    pub fn add_states(&self, n: u64) {
        self.states.fetch_add(n, Ordering::Relaxed);
    }
    pub fn add_transitions(&self, n: u64) {
        self.transitions.fetch_add(n, Ordering::Relaxed);
    }
    pub fn add_traces(&self, n: u64) {
        self.traces.fetch_add(n, Ordering::Relaxed);
    }
    /// Count one distinct non-trivial case identified by `key` bytes.
    pub fn nontrivial(&self, key: &[u8]) {
        let k = key128(key);
        self.inner.lock().unwrap().distinct.insert(k);
    }
    /// Merge many distinct keys at once (hot loops collect locally first).
    pub fn nontrivial_many(&self, keys: impl IntoIterator<Item = u128>) {
        let mut g = self.inner.lock().unwrap();
        for k in keys {
            g.distinct.insert(k);
        }
    }
    /// Hash helper for [`Report::nontrivial_many`].
    pub fn key(bytes: &[u8]) -> u128 {
        key128(bytes)
    }
    pub fn sample(&self, v: Value) {
        let mut g = self.inner.lock().unwrap();
        if g.samples.len() < self.max_samples {
            g.samples.push(v);
        }
    }
    /// Keep a sample regardless of the first-N cap (used for one sample per phase).
    pub fn sample_force(&self, v: Value) {
        let mut g = self.inner.lock().unwrap();
        if g.samples.len() < 64 {
            g.samples.push(v);
        }
    }
    pub fn counter(&self, name: &str, n: u64) {
        *self
            .inner
            .lock()
            .unwrap()
            .counters
            .entry(name.to_string())
            .or_insert(0) += n;
    }
    /// Histogram of distinct observed outcomes (vacuity evidence).
    pub fn outcome(&self, name: &str) {
        *self
            .inner
            .lock()
            .unwrap()
            .outcomes
            .entry(name.to_string())
            .or_insert(0) += 1;
    }
    pub fn outcome_n(&self, name: &str, n: u64) {
        *self
            .inner
            .lock()
            .unwrap()
            .outcomes
            .entry(name.to_string())
            .or_insert(0) += n;
    }
    pub fn outcome_count(&self, name: &str) -> u64 {
        self.inner
            .lock()
            .unwrap()
            .outcomes
            .get(name)
            .copied()
            .unwrap_or(0)
    }
    pub fn counter_value(&self, name: &str) -> u64 {
        self.inner
            .lock()
            .unwrap()
            .counters
            .get(name)
            .copied()
            .unwrap_or(0)
    }
    pub fn note(&self, name: &str, v: Value) {
        self.inner.lock().unwrap().notes.insert(name.to_string(), v);
    }
    /// Vacuity guard: a false guard makes the run a MACHINERY-ERROR, never a pass.
    pub fn guard(&self, name: &str, ok: bool) {
        let mut g = self.inner.lock().unwrap();
        let e = g.guards.entry(name.to_string()).or_insert(true);
        *e = *e && ok;
    }
    pub fn machinery_error(&self, msg: &str) {
        let mut g = self.inner.lock().unwrap();
        if g.machinery.len() < 32 {
            g.machinery.push(msg.to_string());
        }
    }
    /// Record a violation.  `signature` identifies the failing input / call site / history
    /// (stable across runs); `detail` is what a replayer needs.
    pub fn violation(&self, signature: &str, detail: Value) {
        self.total_violations.fetch_add(1, Ordering::Relaxed);
        let mut g = self.inner.lock().unwrap();
        if let Some(e) = g.violations.get_mut(signature) {
            e.0 += 1;
        } else if g.violations.len() < 200 {
            g.violations.insert(signature.to_string(), (1, detail));
        }
    }
    /// Run the same property binary built in another configuration (`VERIF_BIN_<TAG>` set by
    /// `./check`) with extra arguments; its violations are re-registered here, its coverage is
    /// attached under `coverage.build_<tag>` and its evaluations are added.  Returns its stdout.
    pub fn run_extra_build(&self, tag: &str, extra_args: &[&str]) -> Option<String> {
        let var = format!("VERIF_BIN_{}", tag.to_uppercase());
        let Ok(bin) = std::env::var(&var) else {
            return None;
        };
        let tier = if self.quick() { "quick" } else { "thorough" };
        let out = std::process::Command::new(&bin)
            .args(["--tier", tier])
            .args(extra_args)
            .env("VERIF_BUILD", tag)
            .env("VERIF_TIER", tier)
            .env(
                "VERIF_SCRATCH",
                format!("/dev/shm/echo-verif-{}-{tag}", std::process::id()),
            )
            .output();
        let out = match out {
            Ok(o) => o,
            Err(e) => {
                self.machinery_error(&format!("cannot run {tag} build {bin}: {e}"));
                return None;
            }
        };
        let stdout = String::from_utf8_lossy(&out.stdout).to_string();
        for line in stdout.lines() {
            if let Some(j) = line.strip_prefix("SUBVIOLATION ") {
                if let Ok(v) = serde_json::from_str::<Value>(j) {
                    let sig = v["signature"].as_str().unwrap_or("?").to_string();
                    self.violation(&sig, v["detail"].clone());
                }
            } else if let Some(m) = line.strip_prefix("SUBMACHINERY ") {
                self.machinery_error(&format!("[{tag}] {m}"));
            }
        }
        match out.status.code() {
            Some(0) => {}
            Some(2) => {}
            other => self.machinery_error(&format!(
                "[{tag}] build exited with {other:?}: {}",
                String::from_utf8_lossy(&out.stderr)
                    .lines()
                    .rev()
                    .take(5)
                    .collect::<Vec<_>>()
                    .join(" | ")
            )),
        }
        let evp = self
            .root
            .join("evidence")
            .join(format!("{}.{}.json", self.id, tag));
        if let Ok(txt) = std::fs::read_to_string(&evp) {
            if let Ok(v) = serde_json::from_str::<Value>(&txt) {
                if let Some(n) = v["coverage"]["evaluations"].as_u64() {
                    self.counter(&format!("evaluations_{tag}"), n);
                }
                let mut c = v["coverage"].clone();
                if let Some(o) = c.as_object_mut() {
                    o.remove("samples");
                }
                self.note(&format!("build_{tag}"), c);
            }
            let _ = std::fs::remove_file(&evp);
        }
        Some(stdout)
    }
    /// Which build this process is (`main`, `prod`, `dv`, `dbg`).
    pub fn build_tag() -> String {
        std::env::var("VERIF_BUILD").unwrap_or_else(|_| "main".into())
    }

    pub fn violation_count(&self) -> u64 {
        self.total_violations.load(Ordering::Relaxed)
    }

    fn known_findings(&self) -> Vec<(String, String, String)> {
        // (kind, match, what) for this property
        let p = self.root.join("known_findings.json");
        let Ok(txt) = std::fs::read_to_string(&p) else {
            return Vec::new();
        };
        let Ok(v) = serde_json::from_str::<Value>(&txt) else {
            return Vec::new();
        };
        let mut out = Vec::new();
        if let Some(a) = v.get("findings").and_then(|x| x.as_array()) {
            for f in a {
                if f.get("property").and_then(|x| x.as_str()) == Some(self.id.as_str()) {
                    out.push((
                        f.get("kind")
                            .and_then(|x| x.as_str())
                            .unwrap_or("known")
                            .to_string(),
                        f.get("match")
                            .and_then(|x| x.as_str())
                            .unwrap_or("\u{0}")
                            .to_string(),
                        f.get("what")
                            .and_then(|x| x.as_str())
                            .unwrap_or("")
                            .to_string(),
                    ));
                }
            }
        }
        out
    }

    /// Write evidence, print verdict lines, clean scratch, exit.
    pub fn finish(self) -> ! {
        let wall = self.elapsed_s();
        let build = std::env::var("VERIF_BUILD").unwrap_or_else(|_| "main".into());
        let is_sub = build != "main";
        let known = if is_sub { Vec::new() } else { self.known_findings() };
        let g = self.inner.into_inner().unwrap();
        let mut listed: BTreeSet<String> = BTreeSet::new();
        let mut unlisted: Vec<(String, u64, Value)> = Vec::new();
        for (sig, (n, detail)) in &g.violations {
            let mut hit = None;
            for (kind, m, what) in &known {
                if kind == "known" && !m.is_empty() && sig.contains(m.as_str()) {
                    hit = Some(format!("{m} — {what}"));
                    break;
                }
            }
            match hit {
                Some(w) => {
                    listed.insert(w);
                }
                None => unlisted.push((sig.clone(), *n, detail.clone())),
            }
        }
        // triage aid: VERIF_DUMP_SIGNATURES=<file> gets every unlisted signature (not only the first 10)
        if let Ok(dump) = std::env::var("VERIF_DUMP_SIGNATURES") {
            let all: Vec<Value> = unlisted
                .iter()
                .map(|(s, n, d)| json!({"signature": s, "count": n, "detail": d}))
                .collect();
            let _ = std::fs::write(dump, serde_json::to_string_pretty(&all).unwrap_or_default());
        }
        let failed_guards: Vec<String> = g
            .guards
            .iter()
            .filter(|(_, ok)| !**ok)
            .map(|(k, _)| k.clone())
            .collect();

        let mut cov = Map::new();
        let evals = self.evaluations.load(Ordering::Relaxed);
        cov.insert("evaluations".into(), json!(evals));
        cov.insert("distinct_nontrivial".into(), json!(g.distinct.len() as u64));
        cov.insert("rule".into(), json!(g.rule));
        cov.insert("samples".into(), Value::Array(g.samples.clone()));
        let exhaustive = !self.not_exhaustive.load(Ordering::Relaxed);
        cov.insert("exhaustive".into(), json!(exhaustive));
        if self.level == Level::ModelChecking {
            cov.insert("states".into(), json!(self.states.load(Ordering::Relaxed)));
            cov.insert(
                "transitions".into(),
                json!(self.transitions.load(Ordering::Relaxed)),
            );
            cov.insert(
                "traces_validated_against_impl".into(),
                json!(self.traces.load(Ordering::Relaxed)),
            );
        }
        if !g.caps.is_empty() {
            cov.insert("caps_hit".into(), json!(g.caps));
        }
        cov.insert("counters".into(), json!(g.counters));
        cov.insert("distinct_outcomes".into(), json!(g.outcomes));
        cov.insert("guards".into(), json!(g.guards));
        for (k, v) in &g.notes {
            cov.insert(k.clone(), v.clone());
        }
        if !listed.is_empty() {
            cov.insert(
                "known_findings_reproduced".into(),
                json!(listed.iter().collect::<Vec<_>>()),
            );
        }
        if !unlisted.is_empty() {
            cov.insert(
                "violation_signatures".into(),
                json!(unlisted
                    .iter()
                    .take(200)
                    .map(|(s, n, _)| json!({"signature": s, "count": n}))
                    .collect::<Vec<_>>()),
            );
        }
        let ev = json!({
            "property_id": self.id,
            "tier": if self.tier == Tier::Quick { "quick" } else { "thorough" },
            "seed": self.seed,
            "level": self.level.as_str(),
            "coverage": Value::Object(cov),
            "assumptions": g.assumptions,
            "wall_s": (wall * 1000.0).round() / 1000.0,
            "violations": unlisted.len() as i64,
        });
        let evdir = self.root.join("evidence");
        let _ = std::fs::create_dir_all(&evdir);
        let evpath = if is_sub {
            evdir.join(format!("{}.{}.json", self.id, build))
        } else {
            evdir.join(format!("{}.json", self.id))
        };
        if is_sub {
            let _ = std::fs::write(
                &evpath,
                serde_json::to_string_pretty(&ev).unwrap_or_default() + "\n",
            );
            for (sig, n, detail) in unlisted.iter().take(50) {
                println!(
                    "SUBVIOLATION {}",
                    json!({"signature": format!("[{build}] {sig}"), "count": n, "detail": detail})
                );
            }
            let mut code = 0;
            if !failed_guards.is_empty() {
                println!("SUBMACHINERY guard(s) failed: {}", failed_guards.join(", "));
                code = 2;
            }
            for m in &g.machinery {
                println!("SUBMACHINERY {m}");
                code = 2;
            }
            std::process::exit(code);
        }
        let mut code = 0;
        if let Err(e) =
            std::fs::write(&evpath, serde_json::to_string_pretty(&ev).unwrap_or_default() + "\n")
        {
            println!("MACHINERY-ERROR property={} cannot write evidence: {e}", self.id);
            code = 2;
        }
        println!(
            "[{}] tier={:?} evaluations={} distinct_nontrivial={} states={} transitions={} exhaustive={} wall={:.1}s",
            self.id,
            self.tier,
            evals,
            g.distinct.len(),
            self.states.load(Ordering::Relaxed),
            self.transitions.load(Ordering::Relaxed),
            exhaustive,
            wall
        );
        for (k, v) in &g.outcomes {
            println!("[{}]   outcome {k}: {v}", self.id);
        }
        for w in &listed {
            println!("KNOWN-FINDING: property={} {}", self.id, w);
        }
        if !unlisted.is_empty() {
            let rdir = self.root.join("replays").join(&self.id);
            let _ = std::fs::create_dir_all(&rdir);
            for (i, (sig, n, detail)) in unlisted.iter().enumerate() {
                if i >= 10 {
                    println!(
                        "[{}] … {} more violation signatures suppressed",
                        self.id,
                        unlisted.len() - 10
                    );
                    break;
                }
                let clean: String = sig
                    .chars()
                    .map(|c| if c.is_ascii_alphanumeric() || c == '-' { c } else { '_' })
                    .take(80)
                    .collect();
                let path = rdir.join(format!("{clean}.json"));
                let body = json!({"property": self.id, "signature": sig, "count": n, "detail": detail,
                    "replay_cmd": format!("/verif/check {} --replay {}", self.id, path.display())});
                let _ = std::fs::write(
                    &path,
                    serde_json::to_string_pretty(&body).unwrap_or_default() + "\n",
                );
                println!("[{}] violation x{n}: {sig}", self.id);
                println!("VIOLATION property={} replay={}", self.id, path.display());
            }
            code = 1;
        }
        if code != 1 {
            if !failed_guards.is_empty() {
                println!(
                    "MACHINERY-ERROR property={} vacuity guard(s) failed: {}",
                    self.id,
                    failed_guards.join(", ")
                );
                code = 2;
            }
            for m in &g.machinery {
                println!("MACHINERY-ERROR property={} {m}", self.id);
                code = 2;
            }
        }
        let scratch = std::env::var("VERIF_SCRATCH")
            .unwrap_or_else(|_| format!("/dev/shm/echo-verif-{}", std::process::id()));
        let _ = std::fs::remove_dir_all(scratch);
        std::process::exit(code);
    }
}
