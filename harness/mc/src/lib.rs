//! Explorer core shared by every property binary.
//!
//! * [`Report`]  — thread-safe accumulator of coverage counters, samples, vacuity guards and
//!   violations; `finish()` writes `/verif/evidence/<id>.json` (EVIDENCE.schema.json), applies
//!   `/verif/known_findings.json`, prints `VIOLATION` / `KNOWN-FINDING` lines and exits
//!   (0 held, 1 unlisted violation, 2 machinery error).
//! * [`enumerate`] — permutations, subsets, sequences, products, byte strings.
//! * [`bfs`] — generic explicit-state breadth-first search with canonical-key deduplication.
//! * [`sched`] — deviation-bounded / exhaustive DFS over choice sequences (schedule exploration).

pub mod bfs;
pub mod enumerate;
pub mod report;
pub mod sched;

pub use report::{Level, Report, Tier};
pub use serde_json::{json, Value};

/// Hex of a byte slice (for samples and signatures).
pub fn hex(b: &[u8]) -> String {
    let mut s = String::with_capacity(b.len() * 2);
    for x in b {
        s.push_str(&format!("{x:02x}"));
    }
    s
}

/// Parse hex produced by [`hex`].
pub fn unhex(s: &str) -> Vec<u8> {
    let s = s.trim();
    (0..s.len() / 2)
        .map(|i| u8::from_str_radix(&s[2 * i..2 * i + 2], 16).unwrap_or(0))
        .collect()
}

/// Stable 64-bit fingerprint of anything hashable to bytes via `Debug`.
pub fn fp_debug<T: std::fmt::Debug>(t: &T) -> [u8; 32] {
    *blake3::hash(format!("{t:?}").as_bytes()).as_bytes()
}

/// BLAKE3 of bytes as array.
pub fn h(b: &[u8]) -> [u8; 32] {
    *blake3::hash(b).as_bytes()
}

/// Run `f`, catching a panic; returns `Err(message)` on unwind.
pub fn catch<R>(f: impl FnOnce() -> R) -> Result<R, String> {
    match std::panic::catch_unwind(std::panic::AssertUnwindSafe(f)) {
        Ok(r) => Ok(r),
        Err(p) => Err(panic_message(&p)),
    }
}

/// Best-effort panic payload rendering.
pub fn panic_message(p: &Box<dyn std::any::Any + Send>) -> String {
    if let Some(s) = p.downcast_ref::<&'static str>() {
        (*s).to_string()
    } else if let Some(s) = p.downcast_ref::<String>() {
        s.clone()
    } else {
        "<non-string panic payload>".to_string()
    }
}

/// Silence the default panic hook (explorations deliberately trigger panics in the subject).
pub fn quiet_panics() {
    std::panic::set_hook(Box::new(|_| {}));
}

/// Per-run scratch directory (on tmpfs), removed by [`Report::finish`].
pub fn scratch_root() -> std::path::PathBuf {
    let base = std::env::var("VERIF_SCRATCH")
        .unwrap_or_else(|_| format!("/dev/shm/echo-verif-{}", std::process::id()));
    let p = std::path::PathBuf::from(base);
    let _ = std::fs::create_dir_all(&p);
    p
}
