//! Explicit-state breadth-first search over a real, cloneable system.
//!
//! The transition function is the real code (called by `step`); the invariant is evaluated by the
//! caller inside `step`/`visit` (it reports into a `Report`).  States are deduplicated by a
//! canonical key supplied by the caller.  Frontier expansion is parallel (rayon) but the order in
//! which successors are merged is the sequential order, so `states`/`transitions` are
//! deterministic.

use rayon::prelude::*;
use std::collections::HashSet;

/// Result counters.
#[derive(Debug, Clone, Default)]
pub struct BfsStats {
    pub states: u64,
    pub transitions: u64,
    pub max_depth: usize,
    /// Number of root-to-frontier paths that were executed step by step (every transition taken,
    /// including those leading to already-seen states, ends one validated trace segment).
    pub paths: u64,
    pub capped: bool,
    /// Number of states per depth.
    pub per_depth: Vec<u64>,
}

/// A node of the search: the real state plus the operation history that reached it.
#[derive(Clone)]
pub struct Node<S, O> {
    pub state: S,
    pub path: Vec<O>,
}

/// Breadth-first search.
///
/// * `key`   — canonical form (merged states must have equal futures; the caller argues why).
/// * `ops`   — operations enabled in a state (small finite menu).
/// * `step`  — apply one operation to a *clone* of the state using the real implementation;
///             `None` means "operation not applicable / pruned" (not counted as a transition).
/// * `visit` — invariant evaluation on every newly discovered state.
/// * `stop`  — polled between levels and every 256 expansions; `true` aborts (reported as capped).
pub fn bfs<S, O>(
    init: S,
    max_depth: usize,
    key: impl Fn(&S) -> Vec<u8> + Sync,
    ops: impl Fn(&S, &[O]) -> Vec<O> + Sync,
    step: impl Fn(&S, &O, &[O]) -> Option<S> + Sync,
    visit: impl Fn(&S, &[O]) + Sync,
    stop: impl Fn() -> bool + Sync,
) -> BfsStats
where
    S: Clone + Send + Sync,
    O: Clone + Send + Sync,
{
    let mut stats = BfsStats::default();
    let mut seen: HashSet<[u8; 32]> = HashSet::new();
    let k0 = *blake3::hash(&key(&init)).as_bytes();
    seen.insert(k0);
    visit(&init, &[]);
    stats.states = 1;
    stats.per_depth.push(1);
    let mut frontier = vec![Node {
        state: init,
        path: Vec::new(),
    }];
    for depth in 0..max_depth {
        if frontier.is_empty() {
            break;
        }
        if stop() {
            stats.capped = true;
            break;
        }
        let expanded: Vec<Vec<([u8; 32], Node<S, O>)>> = frontier
            .par_iter()
            .map(|n| {
                let mut out = Vec::new();
                if stop() {
                    return out;
                }
                for op in ops(&n.state, &n.path) {
                    if let Some(s2) = step(&n.state, &op, &n.path) {
                        let k = *blake3::hash(&key(&s2)).as_bytes();
                        let mut p = n.path.clone();
                        p.push(op);
                        out.push((k, Node { state: s2, path: p }));
                    }
                }
                out
            })
            .collect();
        if stop() {
            stats.capped = true;
        }
        let mut next = Vec::new();
        for succs in expanded {
            for (k, node) in succs {
                stats.transitions += 1;
                stats.paths += 1;
                if seen.insert(k) {
                    stats.states += 1;
                    visit(&node.state, &node.path);
                    next.push(node);
                }
            }
        }
        stats.max_depth = depth + 1;
        stats.per_depth.push(next.len() as u64);
        frontier = next;
        if stats.capped {
            break;
        }
    }
    stats
}

/// Self-test on a system with a closed-form state count: a counter pair (a,b) in 0..n with
/// inc-a / inc-b operations has n*n states and 2*n*n - 2n transitions (saturating ops pruned).
pub fn selftest() -> Result<(), String> {
    let n = 7u32;
    let st = bfs(
        (0u32, 0u32),
        100,
        |s| format!("{s:?}").into_bytes(),
        |_, _| vec![0u8, 1u8],
        |s, o, _| {
            let mut t = *s;
            if *o == 0 {
                if t.0 + 1 >= n {
                    return None;
                }
                t.0 += 1;
            } else {
                if t.1 + 1 >= n {
                    return None;
                }
                t.1 += 1;
            }
            Some(t)
        },
        |_, _| {},
        || false,
    );
    if st.states != (n * n) as u64 {
        return Err(format!("bfs states {} != {}", st.states, n * n));
    }
    if st.transitions != (2 * n * n - 2 * n) as u64 {
        return Err(format!("bfs transitions {}", st.transitions));
    }
    Ok(())
}
