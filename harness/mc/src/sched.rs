//! Stateless DFS over choice sequences (schedules, fault positions …).
//!
//! `run` executes the real code once under a [`Script`]: at every choice point the code under a
//! controlled scheduler calls [`Script::choose`] with the number of enabled alternatives, in
//! canonical order (alternative 0 = "keep running the current thread" when it is still enabled).
//! The script replays its prefix — an out-of-range prefix choice is a hard error — then takes
//! alternative 0.  [`explore`] backtracks over every alternative of every point after the prefix,
//! optionally bounded by the number of *deviations* (preemptions): a deviation is a non-zero
//! choice at a point where alternative 0 was the still-runnable current thread.

/// One recorded choice point.
#[derive(Clone, Debug, PartialEq, Eq)]
pub struct Point {
    pub chosen: usize,
    pub enabled: usize,
    /// True when choosing a non-zero alternative here costs a deviation.
    pub costly: bool,
}

/// Choice script for one execution.
#[derive(Clone, Debug, Default)]
pub struct Script {
    prefix: Vec<usize>,
    pub trace: Vec<Point>,
    pub error: Option<String>,
}

impl Script {
    pub fn new(prefix: Vec<usize>) -> Self {
        Script {
            prefix,
            trace: Vec::new(),
            error: None,
        }
    }
    /// Decide the next choice among `enabled` alternatives.
    pub fn choose(&mut self, enabled: usize, costly: bool) -> usize {
        let i = self.trace.len();
        let c = if i < self.prefix.len() {
            self.prefix[i]
        } else {
            0
        };
        if enabled == 0 {
            self.error = Some(format!("choice point {i} with no enabled alternative (deadlock)"));
            self.trace.push(Point {
                chosen: 0,
                enabled,
                costly,
            });
            return 0;
        }
        if c >= enabled {
            self.error = Some(format!(
                "replay divergence at point {i}: scripted choice {c} but only {enabled} enabled"
            ));
            self.trace.push(Point {
                chosen: 0,
                enabled,
                costly,
            });
            return 0;
        }
        self.trace.push(Point {
            chosen: c,
            enabled,
            costly,
        });
        c
    }
    pub fn choices(&self) -> Vec<usize> {
        self.trace.iter().map(|p| p.chosen).collect()
    }
    pub fn deviations(&self) -> usize {
        self.trace
            .iter()
            .filter(|p| p.costly && p.chosen != 0)
            .count()
    }
}

/// Exploration counters.
#[derive(Debug, Clone, Default)]
pub struct SchedStats {
    pub executions: u64,
    pub max_points: usize,
    pub bound: Option<usize>,
    pub capped: bool,
    pub errors: Vec<String>,
}

/// Explore every choice sequence (deviation-bounded if `bound` is `Some`).  `run` must be
/// deterministic given the script.  `stop` is polled before each execution.
pub fn explore(
    bound: Option<usize>,
    mut run: impl FnMut(&mut Script),
    mut stop: impl FnMut() -> bool,
) -> SchedStats {
    let mut stats = SchedStats {
        bound,
        ..Default::default()
    };
    let mut stack: Vec<Vec<usize>> = vec![Vec::new()];
    while let Some(prefix) = stack.pop() {
        if stop() {
            stats.capped = true;
            break;
        }
        let mut s = Script::new(prefix.clone());
        run(&mut s);
        stats.executions += 1;
        stats.max_points = stats.max_points.max(s.trace.len());
        if let Some(e) = &s.error {
            if stats.errors.len() < 8 {
                stats.errors.push(format!("{e} (prefix {prefix:?})"));
            }
            continue;
        }
        if s.trace.len() < prefix.len() {
            if stats.errors.len() < 8 {
                stats.errors.push(format!(
                    "replay divergence: prefix {prefix:?} longer than execution ({} points)",
                    s.trace.len()
                ));
            }
            continue;
        }
        let mut dev_before = 0usize;
        for (i, p) in s.trace.iter().enumerate() {
            if i >= prefix.len() {
                for alt in 1..p.enabled {
                    let cost = dev_before + usize::from(p.costly);
                    if bound.is_some_and(|b| cost > b) {
                        continue;
                    }
                    let mut np: Vec<usize> = s.trace[..i].iter().map(|q| q.chosen).collect();
                    np.push(alt);
                    stack.push(np);
                }
            }
            if p.costly && p.chosen != 0 {
                dev_before += 1;
            }
        }
    }
    stats
}

/// Self-test: a system of `k` points with `n` alternatives each has n^k executions; with all
/// points costly and bound b it has sum_{j<=b} C(k,j)(n-1)^j.
pub fn selftest() -> Result<(), String> {
    let st = explore(
        None,
        |s| {
            for _ in 0..4 {
                s.choose(3, true);
            }
        },
        || false,
    );
    if st.executions != 81 {
        return Err(format!("sched unbounded {}", st.executions));
    }
    let st = explore(
        Some(1),
        |s| {
            for _ in 0..4 {
                s.choose(3, true);
            }
        },
        || false,
    );
    if st.executions != 1 + 4 * 2 {
        return Err(format!("sched bound1 {}", st.executions));
    }
    // data-dependent depth: choosing 1 at the first point adds a point
    let st = explore(
        None,
        |s| {
            let a = s.choose(2, false);
            if a == 1 {
                s.choose(2, false);
            }
        },
        || false,
    );
    if st.executions != 3 {
        return Err(format!("sched dependent {}", st.executions));
    }
    Ok(())
}
