#!/usr/bin/env python3
"""Generate /verif/MANIFEST.json from tools/checks.json (single source of truth), validate it."""
import json, os, sys
ROOT = os.path.dirname(os.path.dirname(os.path.abspath(__file__)))
spec = json.load(open(os.path.join(ROOT, "tools", "checks.json")))
props = [json.loads(l)["id"] for l in open(os.path.join(ROOT, "properties.jsonl"))]
checks = []
claimed = set()
for c in spec["checks"]:
    pid = c["id"]
    if not os.path.isdir(os.path.join(ROOT, "harness", "props", pid.lower())):
        continue
    claimed.add(pid)
    checks.append({
        "property_id": pid,
        "quick_cmd": f"./check {pid} --tier quick",
        "thorough_cmd": f"./check {pid} --tier thorough",
        "evidence_file": f"/verif/evidence/{pid}.json",
        "replay_cmd_template": f"./check {pid} --replay {{path}}",
        "engine": c.get("engine", "mc"),
        "level_claimed": {"category": c["level"], "text": c["text"], "design_ref": c.get("design_ref", f"DESIGN.md §4 {pid}")},
        "level_note": c["note"],
        "technique": c["technique"],
    })
na = []
for p in props:
    if p not in claimed:
        reason = spec.get("not_applicable", {}).get(p, "check not built yet in this session (work in progress); see DESIGN.md §4 for the planned bounded-exhaustive design")
        na.append({"property_id": p, "reason": reason})
m = {
    "version": 1,
    "setup_cmd": "cd /verif && ./tools/setup.sh",
    "hooks": {
        "guard": "cargo feature `echo_verif` on crate warp-core",
        "enable": "the harness workspace (/verif/harness) depends on /repo/crates/warp-core by path with features echo_verif,native_rule_bootstrap,trusted_runtime,host_test; ./check rebuilds it from /repo's working tree",
        "baseline_off_cmd": "cd /repo && cargo nextest run --workspace --no-fail-fast --tool-config-file pb:/w/lib/nextest.toml --profile pb --test-threads 8 --offline",
        "source_commits": spec["hook_commits"],
        "add_only": True,
    },
    "engines": [
        {"name": "mc", "path": "/verif/harness/mc", "serves_properties": sorted(claimed),
         "kind_free_text": "hand-rolled explicit-state BFS, stateless schedule DFS with deviation bounding, finite-space enumerators, evidence writer; the transition function is always the real echo code"},
    ],
    "checks": checks,
    "not_applicable": na,
    "notes": spec.get("notes", ""),
}
json.dump(m, open(os.path.join(ROOT, "MANIFEST.json"), "w"), indent=1)
try:
    import sys; sys.path[:0]=[p for p in __import__("glob").glob("/opt/veriftools/pyvenv/lib/python3*/site-packages")]
    import jsonschema
    jsonschema.validate(m, json.load(open("/root/.vp/MANIFEST.schema.json")))
    print("MANIFEST.json valid;", len(checks), "checks,", len(na), "not_applicable")
except ImportError:
    print("jsonschema not importable; wrote MANIFEST.json unvalidated")
