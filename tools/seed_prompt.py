#!/usr/bin/env python3
"""Print the prompt for an independent 'seeded change' agent for property <id> (only the property text + a worktree)."""
import json, sys
pid=sys.argv[1]; n=sys.argv[2] if len(sys.argv)>2 else '1'
for l in open('/verif/properties.jsonl'):
    p=json.loads(l)
    if p['id']==pid: break
wt=f"/tmp/seed-{pid.lower()}-{n}"
print(f"""You are helping test a verification effort for the Rust repository flyingrobots/echo (a deterministic graph-rewriting simulation engine). Your job: produce ONE realistic code change to the repository that BREAKS the semantic property below while still compiling and still passing the repository's existing test suite, together with a small demonstration that fails with your change and passes without it.

THE PROPERTY ({p['id']}): {p['title']}
Statement: {p['statement']}
Quantified over: {p['quantifier']['text']}
Relevant code (anchors): {json.dumps(p['anchors']['files'])}
Mechanisms: {json.dumps(p['anchors']['mechanism'])}

YOUR SCRATCH COPY: create your own git worktree of the repository and work ONLY there:
    git -C /repo worktree add --detach {wt} HEAD
Never edit anything under /repo itself, never look at or use anything under /verif (it is off limits for you), never commit anywhere. All builds and tests run inside {wt} (cargo is offline: always pass --offline; toolchain 1.90.0 is pinned). Use `export CARGO_TARGET_DIR={wt}/target CARGO_PROFILE_DEV_DEBUG=0 CARGO_PROFILE_TEST_DEBUG=0 CARGO_BUILD_JOBS=6 CARGO_INCREMENTAL=0` in every shell (disk is scarce: no debug info, and do NOT build the whole workspace — build and test only the crates you touch and their direct dependents). The machine is shared and busy: builds are slow, be patient, and build/test only what you need (e.g. `cargo nextest run --offline -p warp-core <filter>` or `cargo test --offline -p <crate>`; do not run the full workspace suite yourself (I will); run the whole test suite of every crate you touched, e.g. `cargo nextest run --offline -p warp-core --no-fail-fast` (~1400 tests); eight tests are known to fail on the unchanged tree: seven in echo-wesley-gen::generation and warp-core::external_consumer_contract_fixture_tests::inverse_intent_resolves_one_admitted_transition_after_restart — ignore those).

WHAT KIND OF CHANGE: a plausible bug a maintainer could introduce (an off-by-one, a check moved after the write it guards, a dropped field in a hash or comparison, a wrong ordering key, a missing rollback, an early return, acknowledging before a sync, a cache keyed too coarsely, …) in non-test source code. It must need something SPECIFIC to manifest — a particular interleaving or worker assignment, a crash or fault at a particular point, a multi-step sequence of operations, an unusual input, a boundary size, or two cooperating sites that each look fine alone — NOT something ordinary use or the existing tests expose at once. Keep the change small (a few lines, at most two sites). Do not touch tests, docs, Cargo files or anything named `verif`/`echo_verif` (verification hooks — leave them alone).

DELIVERABLES, all inside {wt}/SEED/ :
  1. patch.diff  — `git -C {wt} diff` of your source change only (must apply to /repo HEAD with `git apply`).
  2. demo/       — a demonstration: a Rust integration test file (e.g. crates/<crate>/tests/seed_demo.rs, copy it into SEED/demo/ and say where it goes) or a tiny program, that FAILS with your change applied and PASSES without it. State the exact command to run it.
  3. meta.json   — {{"property": "{p['id']}", "title": "<one line>", "needs": "<what specific condition makes it manifest>", "files_changed": [...], "tests_run": "<exact commands you ran and their pass/fail counts with the change applied>", "demo_cmd": "<command>", "why_existing_tests_miss_it": "<one or two sentences>"}}
Verify yourself: (a) with the change: the touched crates' existing tests pass (list counts), the demo fails; (b) without the change (git stash or checkout): the demo passes. When done, leave the worktree in place (do NOT remove it) with your change applied and SEED/ filled in, and reply with a short summary: what you changed, what it needs to manifest, what you ran.""")
