#!/usr/bin/env python3
"""Emit the markdown table of seeded changes (DESIGN §10.5) from /verif/seeded/*/{meta.json,verification.txt}."""
import json, glob, os, re
rows = []
for d in sorted(glob.glob('/verif/seeded/*/')):
    sid = os.path.basename(d.rstrip('/'))
    try:
        m = json.load(open(d + 'meta.json'))
    except Exception:
        continue
    v = open(d + 'verification.txt').read() if os.path.exists(d + 'verification.txt') else ''
    base = re.search(r'baseline_with_patch:\s+Summary \[[^\]]*\]\s*(.*)', v)
    unexpected = re.search(r'unexpected_failures=(.*)', v)
    dw = re.findall(r'demo_with_patch_exit=(\d+)', v)
    dwo = re.findall(r'demo_without_patch_exit=(\d+)', v)
    checks = []
    for mm in re.finditer(r'^(check|recheck\([^)]*\)) (C\d+) exit=(\d+) ?(.*)$', v, re.M):
        kind, c, code, sig = mm.groups()
        first = re.search(r'violation x\d+: (\S+)', sig)
        tag = {'0': 'missed', '1': 'CAUGHT', '2': 'machinery'}.get(code, code)
        checks.append(f"{c} {'(after strengthening) ' if kind.startswith('recheck') else ''}{tag}" + (f" `{first.group(1)[:70]}`" if first and code == '1' else ''))
    ok_base = bool(base) and (unexpected is None or unexpected.group(1).strip() == '')
    rows.append((sid, m.get('property', ''), m.get('title', '').replace('|', '/')[:160], (m.get('needs', '') or '').replace('|', '/').replace('\n', ' ')[:260],
                 (base.group(1)[:60] if base else 'n/a') + ('' if ok_base else ' **UNEXPECTED FAILURES**'),
                 f"{dw[-1] if dw else '?'} / {dwo[-1] if dwo else '?'}", '; '.join(checks)))
print('| seed | what was changed | needs, to manifest | repo suite with the change | demo exit with / without | our checks (quick tier) |')
print('|---|---|---|---|---|---|')
for r in rows:
    print(f"| {r[0]} | {r[2]} | {r[3]} | {r[4]} | {r[5]} | {r[6]} |")
