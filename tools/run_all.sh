#!/bin/bash
# tools/run_all.sh [quick|thorough] [ids...] — run every registered check in sequence, summarise exit codes and wall time.
cd /verif
TIER=${1:-quick}; shift
IDS=${@:-$(python3 -c "import json;print(' '.join(c['property_id'] for c in json.load(open('MANIFEST.json'))['checks']))")}
mkdir -p /var/tmp/verif-logs
for p in $IDS; do
  s=$(date +%s.%N)
  ./check $p --tier $TIER > /var/tmp/verif-logs/$p.$TIER.log 2>&1; code=$?
  e=$(date +%s.%N)
  kf=$(grep -c '^KNOWN-FINDING' /var/tmp/verif-logs/$p.$TIER.log)
  printf "%s tier=%s exit=%d wall=%.1fs known=%d %s\n" $p $TIER $code $(echo "$e - $s" | bc) $kf "$(grep -m1 -E 'VIOLATION|MACHINERY' /var/tmp/verif-logs/$p.$TIER.log)"
done
