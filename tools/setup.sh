#!/bin/bash
# Build every property binary once (offline).  A crate that fails to build is reported but does
# not stop the others; ./check rebuilds incrementally anyway.
cd /verif/harness/props || exit 2
export CARGO_NET_OFFLINE=true
unset RUSTFLAGS
fail=0
for d in */; do
  d=${d%/}
  [ -f "$d/Cargo.toml" ] || continue
  echo "[setup] building $d"
  (cd "$d" && cargo build --offline --profile verif --quiet) || { echo "[setup] build of $d FAILED"; fail=1; }
done
exit $fail
