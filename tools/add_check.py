#!/usr/bin/env python3
"""tools/add_check.py '<json entry>' — add/replace an entry in tools/checks.json and regenerate MANIFEST."""
import json, sys, subprocess, os
ROOT=os.path.dirname(os.path.dirname(os.path.abspath(__file__)))
e=json.loads(sys.argv[1])
p=os.path.join(ROOT,'tools','checks.json'); d=json.load(open(p))
d['checks']=[c for c in d['checks'] if c['id']!=e['id']]+[e]
d['checks'].sort(key=lambda c:c['id'])
json.dump(d,open(p,'w'),indent=1)
subprocess.run(['python3-vt',os.path.join(ROOT,'tools','gen_manifest.py')])
