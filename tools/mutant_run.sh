#!/bin/bash
# Run one property check against a scratch copy (git worktree) of /repo instead of /repo itself.
#   tools/mutant_run.sh <worktree-dir> <Cxx> [quick|thorough] [extra args...]
# Builds a path-rewritten copy of the harness under <worktree-dir>/.verif-harness with its own
# target dir (<worktree-dir>/.verif-target, kept between runs so rebuilds are incremental) and runs
# /verif/check on it with evidence/replays redirected to <worktree-dir>/.verif-out
# (known_findings.json is copied there).  Nothing under /repo or /verif is modified.
# Exit status = the check's exit status (0 held / 1 VIOLATION / 2 machinery).
set -uo pipefail
WT=$(readlink -f "$1"); PROP=$(echo "$2" | tr a-z A-Z); TIER=${3:-quick}
shift; shift; [ $# -gt 0 ] && shift || true
H="$WT/.verif-harness"; OUT="$WT/.verif-out"
mkdir -p "$H" "$OUT"
rsync -a --delete --exclude target /verif/harness/ "$H/"
find "$H" -name Cargo.toml -o -name config.toml | xargs sed -i "s#/repo/#$WT/#g; s#/verif/target#$WT/.verif-target#g"
cp /verif/known_findings.json "$OUT/" 2>/dev/null || true
VERIF_HARNESS="$H" VERIF_TARGET="$WT/.verif-target" VERIF_OUT="$OUT" /verif/check "$PROP" --tier "$TIER" "$@"
code=$?
echo "[mutant_run] $PROP tier=$TIER exit=$code (evidence: $OUT/evidence/$PROP.json)"
exit $code
