#!/bin/bash
# Run one property check against a scratch copy (git worktree) of /repo instead of /repo itself.
#   tools/mutant_run.sh <worktree-dir> <Cxx> [quick|thorough] [extra args...]
# Builds a path-rewritten copy of the harness under <worktree-dir>/.verif-harness with its own
# target dir (<worktree-dir>/.verif-target) and runs the property binary with VERIF_ROOT pointing
# at <worktree-dir>/.verif-out (evidence/replays land there, known_findings.json is copied).
# Nothing under /repo or /verif is modified.  Exit status = the check's exit status.
set -euo pipefail
WT=$(readlink -f "$1"); PROP=$(echo "$2" | tr a-z A-Z); PKG=$(echo "$2" | tr A-Z a-z); TIER=${3:-quick}
shift; shift; [ $# -gt 0 ] && shift || true
H="$WT/.verif-harness"; OUT="$WT/.verif-out"
rm -rf "$H"; mkdir -p "$H" "$OUT"
rsync -a --exclude target /verif/harness/ "$H/"
# rewrite repo paths and target dir
find "$H" -name Cargo.toml -o -name config.toml | xargs sed -i "s#/repo/#$WT/#g; s#/verif/target#$WT/.verif-target#g"
cp /verif/known_findings.json "$OUT/" 2>/dev/null || true
cd "$H/props/$PKG"
env -u RUSTFLAGS CARGO_NET_OFFLINE=true cargo build --offline --profile verif --quiet
set +e
VERIF_ROOT="$OUT" VERIF_TIER="$TIER" VERIF_BUILD=main "$WT/.verif-target/verif/$PKG" --tier "$TIER" "$@"
code=$?
echo "[mutant_run] $PROP tier=$TIER exit=$code (evidence: $OUT/evidence/$PROP.json)"
exit $code
