#!/bin/bash
# tools/cmd_queue.sh <queue-file> — run each line of the file as a shell command, in order; lines may be
# appended while it runs; a line "END" stops it.  (Used to serialise re-checks on one scratch worktree.)
Q=$1; n=0
while true; do
  n=$((n+1)); line=$(sed -n "${n}p" $Q)
  if [ -z "$line" ]; then sleep 20; n=$((n-1)); continue; fi
  [ "$line" = "END" ] && break
  echo "[$(date +%H:%M:%S)] start: $line" >> $Q.log
  bash -c "$line" >> $Q.out 2>&1
  echo "[$(date +%H:%M:%S)] done($?): $line" >> $Q.log
done
