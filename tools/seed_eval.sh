#!/bin/bash
# tools/seed_eval.sh <seed-id e.g. C20-1> <seed worktree | -> <checks comma-separated> [verify-worktree]
# Confirms an independently produced seeded change and runs our checks against it, all in a
# scratch verification worktree (default /tmp/wt-verify; never /repo):
#   1. patch applies to /repo HEAD; 2. baseline suite with the patch == 2389 pass / 8 known fails;
#   3. demo fails with the patch and passes without; 4. each named check (quick) vs the patched tree.
# With "-" as seed worktree the material already stored in /verif/seeded/<id>/ is re-evaluated.
# Results: /verif/seeded/<id>/{patch.diff,demo_tree/,meta.json,verification.txt,*.log}
set -u
ID=$1; SW=$2; CHECKS=${3:-}; V=${4:-/tmp/wt-verify}
OUT=/verif/seeded/$ID
mkdir -p $OUT/demo_tree
if [ "$SW" != "-" ]; then
  cp $SW/SEED/patch.diff $OUT/patch.diff
  cp $SW/SEED/meta.json $OUT/meta.json 2>/dev/null
  # demo files = untracked files of the seed worktree outside SEED/, target/ and our own scratch dirs
  (cd $SW && git status --porcelain --untracked-files=all | awk '$1=="??"{print $2}' | grep -v '^SEED/' | grep -v '^target/' | grep -v '^\.verif' ) > $OUT/demo_files.txt
  while read -r f; do [ -n "$f" ] && mkdir -p $OUT/demo_tree/$(dirname $f) && cp $SW/$f $OUT/demo_tree/$f; done < $OUT/demo_files.txt
  echo "$SW" > $OUT/seed_worktree.txt
  mkdir -p $OUT/demo_src; cp -r $SW/SEED/demo/. $OUT/demo_src/ 2>/dev/null
fi
ORIG_SW=$(cat $OUT/seed_worktree.txt 2>/dev/null || echo /nonexistent)
HEAD=$(git -C /repo rev-parse HEAD)
[ -d $V ] || git -C /repo worktree add --detach $V $HEAD >/dev/null 2>&1
git -C $V checkout -q -- . ; git -C $V clean -fdq -e target -e .verif-harness -e .verif-target -e .verif-out; git -C $V checkout -q --detach $HEAD
res() { echo "$1" >> $OUT/verification.txt; }
if [ -n "${SEED_CHECKS_ONLY:-}" ]; then
  git -C $V apply $OUT/patch.diff || exit 1
  for c in ${CHECKS//,/ }; do
    /verif/tools/mutant_run.sh $V $c quick > $OUT/check_$c.full.log 2>&1; code=$?
    sig=$(grep -m6 "violation x" $OUT/check_$c.full.log | tr '\n' ' ' | cut -c1-600)
    res "recheck($(git -C /verif rev-parse --short HEAD)+wip) $c exit=$code $sig"
    grep -E "violation x|VIOLATION|MACHINERY|KNOWN-FINDING|tier=|error" $OUT/check_$c.full.log | cut -c1-400 | head -60 > $OUT/check_$c.log; rm -f $OUT/check_$c.full.log
  done
  git -C $V checkout -q -- .
  exit 0
fi
KEEP=""
[ -n "${SEED_SKIP_BASELINE:-}" ] && KEEP=$(grep -E "^baseline_with_patch|^unexpected_failures|^rerun_timed_out" $OUT/verification.txt 2>/dev/null)
[ -z "${SEED_DEMO_ONLY:-}" ] && : > $OUT/verification.txt
res "repo_head=$HEAD"
[ -n "$KEEP" ] && res "$KEEP"
if ! git -C $V apply --check $OUT/patch.diff 2>$OUT/apply.err; then res "apply=FAILED"; exit 1; fi
git -C $V apply $OUT/patch.diff; res "apply=ok"
res "patch_files=$(git -C $V diff --name-only | tr '\n' ' ')"
res "demo_files=$(cd $OUT/demo_tree && find . -type f | sed 's#^\./##' | tr '\n' ' ')"
export CARGO_TARGET_DIR=$V/target CARGO_PROFILE_DEV_DEBUG=0 CARGO_PROFILE_TEST_DEBUG=0 CARGO_INCREMENTAL=0
# 2. baseline with patch (no demo)
if [ -z "${SEED_SKIP_BASELINE:-}${SEED_DEMO_ONLY:-}" ]; then
  ( cd $V && cargo nextest run --workspace --no-fail-fast --tool-config-file pb:/w/lib/nextest.toml --profile pb --test-threads 8 --offline ) > $OUT/baseline_with_patch.log 2>&1
  SUM=$(grep -E "^\s+Summary" $OUT/baseline_with_patch.log | tail -1)
  res "baseline_with_patch: $SUM"
  FAILS=$(grep -E "^\s+(FAIL|SIGABRT|SIGSEGV|TIMEOUT|LEAK-FAIL) " $OUT/baseline_with_patch.log | sed -E 's/.*\) +//' | sort -u | grep -v "echo-wesley-gen::generation" | grep -v "inverse_intent_resolves_one_admitted_transition_after_restart")
  res "unexpected_failures=$(echo $FAILS | tr '\n' ' ')"
  # tests that only timed out (busy box) are re-run alone
  grep -E "^\s+TIMEOUT " $OUT/baseline_with_patch.log | sed -E 's/.*\) +//' | sort -u | while read -r bin t; do
    [ -z "$t" ] && continue
    pkg=${bin%%::*}
    ( cd $V && cargo nextest run --offline -p $pkg --tool-config-file pb:/w/lib/nextest.toml --profile pb -E "test(=$t)" ) > $OUT/rerun.tmp 2>&1
    res "rerun_timed_out $bin $t: $(grep -E '^\s+Summary' $OUT/rerun.tmp | tail -1)"
  done; rm -f $OUT/rerun.tmp
  # keep the log small: summary + failures only
  grep -E "Summary|FAIL|SIGABRT|SIGSEGV|TIMEOUT|error" $OUT/baseline_with_patch.log | head -100 > $OUT/baseline_with_patch.short.log; rm -f $OUT/baseline_with_patch.log
fi
# 3. demo with patch / without patch (SEED/demo is recreated in the verify worktree because some demo commands copy from it)
(cd $OUT/demo_tree && find . -type f | sed 's#^\./##') | while read -r f; do mkdir -p $V/$(dirname $f); cp $OUT/demo_tree/$f $V/$f; done
mkdir -p $V/SEED/demo; cp -r $OUT/demo_src/. $V/SEED/demo/ 2>/dev/null
DEMO_CMD=$(python3 -c "import json;print(json.load(open('$OUT/meta.json')).get('demo_cmd',''))" 2>/dev/null | sed "s#$ORIG_SW#$V#g" | sed -E 's/ +\((or|equivalently|alternatively)[^)]*\) *$//')
res "demo_cmd=$DEMO_CMD"
if [ -n "$DEMO_CMD" ]; then
  ( cd $V && eval "$DEMO_CMD" ) > $OUT/demo_with_patch.log 2>&1; res "demo_with_patch_exit=$?"
  git -C $V apply -R $OUT/patch.diff
  ( cd $V && eval "$DEMO_CMD" ) > $OUT/demo_without_patch.log 2>&1; res "demo_without_patch_exit=$?"
  git -C $V apply $OUT/patch.diff
  for l in demo_with_patch demo_without_patch; do tail -c 6000 $OUT/$l.log > $OUT/$l.tail.log; rm -f $OUT/$l.log; done
fi
(cd $OUT/demo_tree && find . -type f | sed 's#^\./##') | while read -r f; do rm -f $V/$f; done
git -C $V clean -fdq -e target -e .verif-harness -e .verif-target -e .verif-out
[ -n "${SEED_DEMO_ONLY:-}" ] && { git -C $V checkout -q -- .; exit 0; }
unset CARGO_TARGET_DIR CARGO_PROFILE_DEV_DEBUG CARGO_PROFILE_TEST_DEBUG CARGO_INCREMENTAL
# 4. our checks against the patched tree
for c in ${CHECKS//,/ }; do
  /verif/tools/mutant_run.sh $V $c quick > $OUT/check_$c.full.log 2>&1; code=$?
  sig=$(grep -m6 "violation x" $OUT/check_$c.full.log | tr '\n' ' ' | cut -c1-600)
  res "check $c exit=$code $sig"
  grep -E "violation x|VIOLATION|MACHINERY|KNOWN-FINDING|tier=|error" $OUT/check_$c.full.log | cut -c1-400 | head -60 > $OUT/check_$c.log; rm -f $OUT/check_$c.full.log
done
git -C $V checkout -q -- .
res "DONE"
