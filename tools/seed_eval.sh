#!/bin/bash
# tools/seed_eval.sh <seed-id e.g. C20-1> <seed worktree> <checks comma-separated>
# Confirms an independently produced seeded change and runs our checks against it, all in the
# scratch verification worktree /tmp/wt-verify (never /repo):
#   1. patch applies to /repo HEAD; 2. baseline suite with the patch == 2389 pass / 8 known fails;
#   3. demo fails with the patch and passes without; 4. each named check (quick) vs the patched tree.
# Results: /verif/seeded/<id>/{patch.diff,demo/,meta.json,verification.json,logs}
set -u
ID=$1; SW=$2; CHECKS=${3:-}
OUT=/verif/seeded/$ID; V=/tmp/wt-verify
mkdir -p $OUT/demo
cp $SW/SEED/patch.diff $OUT/patch.diff
cp $SW/SEED/meta.json $OUT/meta.json 2>/dev/null
cp -r $SW/SEED/demo/. $OUT/demo/ 2>/dev/null
HEAD=$(git -C /repo rev-parse HEAD)
[ -d $V ] || git -C /repo worktree add --detach $V $HEAD >/dev/null 2>&1
git -C $V checkout -q -- . ; git -C $V clean -fdq -e target -e .verif-harness -e .verif-target -e .verif-out; git -C $V checkout -q --detach $HEAD
res() { echo "$1" >> $OUT/verification.txt; }
: > $OUT/verification.txt
res "repo_head=$HEAD"
if ! git -C $V apply --check $OUT/patch.diff 2>$OUT/apply.err; then res "apply=FAILED"; exit 1; fi
git -C $V apply $OUT/patch.diff; res "apply=ok"
# untracked demo files in the seed worktree (outside SEED/ and target/)
DEMOS=$(git -C $SW status --porcelain --untracked-files=all | awk '$1=="??"{print $2}' | grep -v '^SEED/' | grep -v '^target/' | grep -v '^\.verif')
res "demo_files=$(echo $DEMOS | tr '\n' ' ')"
export CARGO_TARGET_DIR=$V/target
# 2. baseline with patch (no demo)
( cd $V && cargo nextest run --workspace --no-fail-fast --tool-config-file pb:/w/lib/nextest.toml --profile pb --test-threads 8 --offline ) > $OUT/baseline_with_patch.log 2>&1
SUM=$(grep -E "^\s+Summary" $OUT/baseline_with_patch.log | tail -1)
res "baseline_with_patch: $SUM"
FAILS=$(grep -E "^\s+FAIL " $OUT/baseline_with_patch.log | sed -E 's/.*\) //' | sort -u | grep -v "echo-wesley-gen::generation" | grep -v "inverse_intent_resolves_one_admitted_transition_after_restart")
res "unexpected_failures=$(echo $FAILS | tr '\n' ' ')"
# 3. demo with patch / without patch
for f in $DEMOS; do mkdir -p $V/$(dirname $f); cp $SW/$f $V/$f; done
DEMO_CMD=$(python3 -c "import json;print(json.load(open('$OUT/meta.json')).get('demo_cmd',''))" 2>/dev/null | sed "s#$SW#$V#g")
res "demo_cmd=$DEMO_CMD"
if [ -n "$DEMO_CMD" ]; then
  ( cd $V && eval "$DEMO_CMD" ) > $OUT/demo_with_patch.log 2>&1; res "demo_with_patch_exit=$?"
  git -C $V apply -R $OUT/patch.diff
  ( cd $V && eval "$DEMO_CMD" ) > $OUT/demo_without_patch.log 2>&1; res "demo_without_patch_exit=$?"
  git -C $V apply $OUT/patch.diff
fi
for f in $DEMOS; do rm -f $V/$f; done
unset CARGO_TARGET_DIR
# 4. our checks against the patched tree
for c in ${CHECKS//,/ }; do
  /verif/tools/mutant_run.sh $V $c quick > $OUT/check_$c.log 2>&1; code=$?
  sig=$(grep -m4 "violation x" $OUT/check_$c.log | tr '\n' ' ' | cut -c1-400)
  res "check $c exit=$code $sig"
done
git -C $V checkout -q -- .
res "DONE"
