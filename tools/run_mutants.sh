#!/bin/bash
# tools/run_mutants.sh <worktree> <logfile> <mutant.py>:<Cxx>[,<Cyy>] ...
# Applies each mutant (python script taking the worktree path) to a scratch worktree of /repo,
# runs the named checks' quick tier against it with tools/mutant_run.sh, logs exit codes, reverts.
WT=$1; LOG=$2; shift; shift
[ -d "$WT" ] || git -C /repo worktree add --detach "$WT" HEAD >/dev/null 2>&1
for spec in "$@"; do
  m=${spec%%:*}; props=${spec##*:}
  git -C "$WT" checkout -q -- . ; git -C "$WT" checkout -q --detach $(git -C /repo rev-parse HEAD)
  if ! python3 "$m" "$WT"; then echo "$(basename $m): MUTANT DID NOT APPLY" >> "$LOG"; continue; fi
  for p in ${props//,/ }; do
    out=$(/verif/tools/mutant_run.sh "$WT" "$p" quick 2>&1); code=$?
    sig=$(echo "$out" | grep -m3 "violation x\|MACHINERY" | tr '\n' ' ' | cut -c1-300)
    echo "$(basename $m) | $p | exit=$code | $sig" >> "$LOG"
  done
done
git -C "$WT" checkout -q -- .
echo "DONE" >> "$LOG"
