#!/bin/bash
# tools/seed_queue.sh <verify-worktree> <queue-file>   — process lines "ID seed-worktree checks" sequentially;
# lines may be appended to the queue file while it runs.  Stops when it reaches a line "END".
V=$1; Q=$2; n=0
while true; do
  n=$((n+1)); line=$(sed -n "${n}p" $Q)
  if [ -z "$line" ]; then sleep 30; n=$((n-1)); continue; fi
  [ "$line" = "END" ] && break
  set -- $line
  echo "[$(date +%H:%M:%S)] start $1" >> $Q.log
  /verif/tools/seed_eval.sh $1 $2 $3 $V > /var/tmp/seed_eval_$1.log 2>&1
  echo "[$(date +%H:%M:%S)] done $1: $(grep -E '^check|unexpected|demo_w' /verif/seeded/$1/verification.txt | tr '\n' ';' | cut -c1-300)" >> $Q.log
done
