#!/bin/bash
# tools/new_prop.sh cNN  — create a standalone property crate (its own workspace root) under harness/props/
set -euo pipefail
N=$1; D=/verif/harness/props/$N
mkdir -p $D/src
[ -f $D/src/main.rs ] || cat > $D/src/main.rs <<RS
//! Property check ${N^^} (see /verif/DESIGN.md §4).
use mc::{Level, Report};

fn main() {
    let r = Report::new("${N^^}", Level::Exploration);
    r.machinery_error("check not implemented yet");
    r.finish();
}
RS
cat > $D/Cargo.toml <<TOML
[package]
name = "$N"
edition = "2021"
version = "0.0.0"
publish = false

# Standalone workspace root on purpose: a broken sibling crate can never break this one.
[workspace]

[features]
# \`dv\`: second build with warp-core's delta_validate code paths compiled in.
dv = ["warp-core/delta_validate"]

[dependencies]
mc = { path = "../../mc" }
world = { path = "../../world" }
warp-core = { path = "/repo/crates/warp-core", features = ["echo_verif", "native_rule_bootstrap", "trusted_runtime", "host_test"] }
serde_json = "1"
rayon = "1"
blake3 = "1"
bytes = "1"
TOML
cp /verif/harness/lock.base $D/Cargo.lock
echo "created $D"
