#!/usr/bin/env python3
"""Apply every mutant as a runtime-selected schema: exactly the mutant named by $VERIF_MUTANT is live."""
import sys
wt = sys.argv[1]
W = wt + '/crates/warp-core/src/causal_wal.rs'
H = wt + '/crates/warp-core/src/trusted_runtime_host.rs'
w = open(W).read(); h = open(H).read()
def sub(s, old, new, name):
    assert s.count(old) == 1, (name, s.count(old), old[:70])
    return s.replace(old, new)
w = sub(w, 'const WAL_FRAME_DOMAIN: &[u8] = b"echo:causal_wal:frame:v1\\0";',
 '''/// Mutation-testing switch (scratch worktree only): true when `$VERIF_MUTANT` names this mutant.
pub(crate) fn verif_mutant(name: &str) -> bool {
    static ACTIVE: std::sync::OnceLock<String> = std::sync::OnceLock::new();
    ACTIVE.get_or_init(|| std::env::var("VERIF_MUTANT").unwrap_or_default()) == name
}
const WAL_FRAME_DOMAIN: &[u8] = b"echo:causal_wal:frame:v1\\0";''', 'helper')
w = sub(w, "append_segment_record(&self.segment_path(), DiskWalRecord::Commit(&commit), true)?;",
           "append_segment_record(&self.segment_path(), DiskWalRecord::Commit(&commit), !verif_mutant(\"M1\"))?;", 'M1')
w = sub(w, """    let tail_exists = frames
        .iter()
        .any(|frame| last_committed_lsn.is_none_or(|lsn| frame.header.lsn > lsn));
    let tail_posture = match (tail_exists, mode, last_committed_lsn) {""",
 """    let tail_exists = !verif_mutant("M2")
        && frames.iter().any(|frame| {
            last_committed_lsn.is_none_or(|lsn| {
                if verif_mutant("M6b") {
                    frame.header.lsn.as_u64() > lsn.as_u64() + 1
                } else {
                    frame.header.lsn > lsn
                }
            })
        });
    let tail_posture = match (tail_exists, mode, last_committed_lsn) {""", 'M2/M6b')
w = sub(w, """            if frame.header.lsn != expected {
                return Err(WalValidationError::LsnContinuityMismatch);
            }
        }
        previous_lsn = Some(frame.header.lsn);""",
 """            if frame.header.lsn != expected && !verif_mutant("M3") {
                return Err(WalValidationError::LsnContinuityMismatch);
            }
        }
        previous_lsn = Some(frame.header.lsn);""", 'M3')
w = sub(w, """        if digest != disk_record_digest(kind, payload) {
            return Err(WalStoreError::SegmentRecordDigestMismatch);
        }""", """        if digest != disk_record_digest(kind, payload) && !verif_mutant("M4") {
            return Err(WalStoreError::SegmentRecordDigestMismatch);
        }""", 'M4')
w = sub(w, "            other => return Err(WalStoreError::UnknownDiskRecordKind(other)),",
 """            _ if verif_mutant("M5") => {}
            other => return Err(WalStoreError::UnknownDiskRecordKind(other)),""", 'M5')
w = sub(w, """        if digest_end > bytes.len() {
            torn_tail = true;
            break;
        }""", """        if digest_end > bytes.len() || (verif_mutant("M6a") && digest_end == bytes.len()) {
            torn_tail = true;
            break;
        }""", 'M6a')
w = sub(w, """    if records_root(frames) != commit.records_root {
        return Err(WalValidationError::RecordsRootMismatch);
    }""", """    if records_root(frames) != commit.records_root && !verif_mutant("M8") {
        return Err(WalValidationError::RecordsRootMismatch);
    }""", 'M8')
w = sub(w, """        .filter(|frame| frame.header.lsn <= after_lsn)
        .collect::<Vec<_>>();
    let kept_commits""", """        .filter(|frame| {
            frame.header.lsn <= after_lsn
                || (verif_mutant("M9") && frame.header.lsn.as_u64() == after_lsn.as_u64() + 1)
        })
        .collect::<Vec<_>>();
    let kept_commits""", 'M9')
w = sub(w, """        (RecoveryAccessMode::Writable, RecoveryTailPosture::TruncatedAll) => {
            clear_filesystem_segments(root)?;
        }""", """        (RecoveryAccessMode::Writable, RecoveryTailPosture::TruncatedAll) => {
            if !verif_mutant("M11") {
                clear_filesystem_segments(root)?;
            }
        }""", 'M11')
w = sub(w, """    if stored_digest != writer_epoch_ledger_digest(payload) {
        return Err(WalStoreError::WriterEpochLedgerDigestMismatch);
    }""", """    if stored_digest != writer_epoch_ledger_digest(payload) && !verif_mutant("M13") {
        return Err(WalStoreError::WriterEpochLedgerDigestMismatch);
    }""", 'M13')
h = sub(h, """            self.host.runtime = before_runtime;
            return Err(error.into());
        }
        self.host
            .track_pending_echo_operation_action_v1(handle.submission_id, is_echo_operation_action);""",
 """            if !crate::causal_wal::verif_mutant("M7") {
                self.host.runtime = before_runtime;
            }
            return Err(error.into());
        }
        self.host
            .track_pending_echo_operation_action_v1(handle.submission_id, is_echo_operation_action);""", 'M7')
h = sub(h, """                    self.runtime = runtime_before;
                    self.provenance = provenance_before;
                    self.echo_operation_action_outcomes = action_outcomes_before;
                    self.admitted_echo_operation_actions = admitted_actions_before;
                    if let Some(rollback_error) = rollback_error {""",
 """                    if !crate::causal_wal::verif_mutant("M10") {
                        self.runtime = runtime_before;
                        self.provenance = provenance_before;
                    }
                    self.echo_operation_action_outcomes = action_outcomes_before;
                    self.admitted_echo_operation_actions = admitted_actions_before;
                    if let Some(rollback_error) = rollback_error {""", 'M10')
open(W, 'w').write(w); open(H, 'w').write(h)
print('applied all mutant schemata')
