#!/bin/bash
# sweep1.sh <check> <mutants...>
WT=/tmp/wt-a; CHK=$1; shift
for M in "$@"; do
    OUT=$WT/.kf-out-$M-$CHK; rm -rf $OUT; mkdir -p $OUT; cp /var/tmp/mut/kf.json $OUT/known_findings.json
    VERIF_MUTANT=$M VERIF_SCRATCH=/dev/shm/echo-verif-mut-$M-$CHK VERIF_ROOT=$OUT VERIF_TIER=quick VERIF_BUILD=main timeout 900 $WT/.verif-target/verif/$CHK --tier quick > /verif/detection/logs/$M-$CHK.log 2>&1
    e=$?
    echo "== $M $CHK exit=$e new-signatures=$(python3 -c "
import json,sys
try:
    e=json.load(open('$OUT/evidence/${CHK^^}.json')); print(e['violations'])
except Exception as ex: print('n/a')
")"
done
