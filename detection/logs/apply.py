#!/usr/bin/env python3
import sys
wt, name = sys.argv[1], sys.argv[2]
W = wt + '/crates/warp-core/src/causal_wal.rs'
H = wt + '/crates/warp-core/src/trusted_runtime_host.rs'
def sub(path, old, new, count=1):
    s = open(path).read()
    assert s.count(old) >= 1, (name, 'pattern not found', old[:60])
    if count == 1:
        assert s.count(old) == 1, (name, 'pattern not unique', s.count(old), old[:60])
    s = s.replace(old, new)
    open(path, 'w').write(s)
if name == 'M1_commit_marker_not_synced':
    sub(W, "append_segment_record(&self.segment_path(), DiskWalRecord::Commit(&commit), true)?;",
           "append_segment_record(&self.segment_path(), DiskWalRecord::Commit(&commit), false)?;")
elif name == 'M2_tail_frames_not_classified':
    sub(W, """    let tail_exists = frames
        .iter()
        .any(|frame| last_committed_lsn.is_none_or(|lsn| frame.header.lsn > lsn));
    let tail_posture = match (tail_exists, mode, last_committed_lsn) {""",
           """    let tail_exists = false;
    let tail_posture = match (tail_exists, mode, last_committed_lsn) {""")
elif name == 'M3_skip_lsn_continuity':
    sub(W, """            if frame.header.lsn != expected {
                return Err(WalValidationError::LsnContinuityMismatch);
            }
        }
        previous_lsn = Some(frame.header.lsn);""",
           """            let _ = expected;
        }
        previous_lsn = Some(frame.header.lsn);""")
elif name == 'M4_skip_disk_digest':
    sub(W, """        if digest != disk_record_digest(kind, payload) {
            return Err(WalStoreError::SegmentRecordDigestMismatch);
        }""", """        let _ = digest;""")
elif name == 'M5_accept_unknown_kind':
    sub(W, "            other => return Err(WalStoreError::UnknownDiskRecordKind(other)),", "            _other => {}")
elif name == 'M6a_complete_final_record_is_torn':
    sub(W, """        if digest_end > bytes.len() {
            torn_tail = true;
            break;
        }""", """        if digest_end >= bytes.len() {
            torn_tail = true;
            break;
        }""")
elif name == 'M6b_first_tail_frame_counts_as_committed':
    sub(W, """    let tail_exists = frames
        .iter()
        .any(|frame| last_committed_lsn.is_none_or(|lsn| frame.header.lsn > lsn));
    let tail_posture = match (tail_exists, mode, last_committed_lsn) {""",
           """    let tail_exists = frames
        .iter()
        .any(|frame| last_committed_lsn.is_none_or(|lsn| frame.header.lsn.as_u64() > lsn.as_u64() + 1));
    let tail_posture = match (tail_exists, mode, last_committed_lsn) {""")
elif name == 'M7_no_rollback_on_submission_wal_failure':
    sub(H, """            self.host.runtime = before_runtime;
            return Err(error.into());
        }
        self.host
            .track_pending_echo_operation_action_v1(handle.submission_id, is_echo_operation_action);""",
           """            let _ = before_runtime;
            return Err(error.into());
        }
        self.host
            .track_pending_echo_operation_action_v1(handle.submission_id, is_echo_operation_action);""")
elif name == 'M8_skip_records_root_check':
    sub(W, """    if records_root(frames) != commit.records_root {
        return Err(WalValidationError::RecordsRootMismatch);
    }""", "")
elif name == 'M9_truncate_keeps_tail_frames':
    sub(W, """        .filter(|frame| frame.header.lsn <= after_lsn)
        .collect::<Vec<_>>();
    let kept_commits""", """        .filter(|frame| frame.header.lsn.as_u64() <= after_lsn.as_u64() + 1)
        .collect::<Vec<_>>();
    let kept_commits""")
else:
    sys.exit('unknown mutant ' + name)
print('applied', name)
