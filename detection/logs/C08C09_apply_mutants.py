#!/usr/bin/env python3
"""apply.py <worktree> <mutant-id> : apply one mutant to the scratch worktree (after `git checkout -- .`)."""
import sys
wt, mid = sys.argv[1], sys.argv[2]
CO = wt + '/crates/warp-core/src/coordinator.rs'
HI = wt + '/crates/warp-core/src/head_inbox.rs'
HD = wt + '/crates/warp-core/src/head.rs'

def edit(path, pairs):
    s = open(path).read()
    for a, b, cnt in pairs:
        assert s.count(a) == cnt, (path, a[:60], s.count(a), cnt)
        s = s.replace(a, b)
    open(path, 'w').write(s)

if mid == 'M1':  # checkpoint taken AFTER admit() of the first head
    edit(CO, [
        ("        let runtime_before = runtime.checkpoint_for(&keys)?;\n",
         "        let mut runtime_before: Option<RuntimeCheckpoint> = None;\n", 1),
        ("            if admitted.is_empty() {\n                continue;\n            }\n\n            let outcome = catch_unwind(",
         "            if runtime_before.is_none() {\n                runtime_before = Some(runtime.checkpoint_for(&keys)?);\n            }\n            if admitted.is_empty() {\n                continue;\n            }\n\n            let outcome = catch_unwind(", 1),
        ("                    runtime.restore(runtime_before);\n",
         "                    if let Some(cp) = runtime_before.take() {\n                        runtime.restore(cp);\n                    }\n", 2),
    ])
elif mid == 'M2':  # skip rollback_receipt_correlations on failure
    edit(CO, [
        ("                    runtime.rollback_receipt_correlations(&mut receipt_correlation_rollback);\n",
         "                    let _ = &mut receipt_correlation_rollback;\n", 2),
    ])
elif mid == 'M3':  # restore runtime but not provenance
    edit(CO, [
        ("                    provenance.restore(&provenance_before);\n",
         "                    let _ = &provenance_before;\n", 2),
    ])
elif mid == 'M4':  # dedupe pending by (ingress id, target form) instead of ingress id
    edit(HI, [
        ("        let ingress_id = envelope.ingress_id();\n\n        // Early rejection: check policy before storing.",
         "        let mut ingress_id = envelope.ingress_id();\n        if matches!(envelope.target(), IngressTarget::ExactHead { .. }) {\n            ingress_id[31] ^= 1;\n        }\n\n        // Early rejection: check policy before storing.", 1),
    ])
elif mid == 'M5':  # record committed ingress before the append that can fail
    edit(CO, [
        ("                    provenance.append_local_commit(entry)?;\n                    frontier.state_mut().record_committed_ingress(\n                        *key,\n                        admitted.iter().map(IngressEnvelope::ingress_id),\n                    );\n",
         "                    frontier.state_mut().record_committed_ingress(\n                        *key,\n                        admitted.iter().map(IngressEnvelope::ingress_id),\n                    );\n                    provenance.append_local_commit(entry)?;\n", 1),
    ])
elif mid == 'M6':  # iterate heads in registration order instead of key order
    edit(HD, [
        ("pub struct PlaybackHeadRegistry {\n    heads: BTreeMap<WriterHeadKey, WriterHead>,\n}",
         "pub struct PlaybackHeadRegistry {\n    heads: BTreeMap<WriterHeadKey, WriterHead>,\n    order: Vec<WriterHeadKey>,\n}", 1),
        ("    pub fn insert(&mut self, head: WriterHead) -> Option<WriterHead> {\n        self.heads.insert(head.key, head)",
         "    pub fn insert(&mut self, head: WriterHead) -> Option<WriterHead> {\n        if !self.order.contains(&head.key) {\n            self.order.push(head.key);\n        }\n        self.heads.insert(head.key, head)", 1),
        ("        self.keys.clear();\n        for (key, head) in registry.iter() {\n            if head.is_admitted() && !head.is_paused() {\n                self.keys.push(*key);\n            }\n        }",
         "        self.keys.clear();\n        for key in &registry.order {\n            if let Some(head) = registry.get(key) {\n                if head.is_admitted() && !head.is_paused() {\n                    self.keys.push(*key);\n                }\n            }\n        }", 1),
    ])
elif mid == 'M7':  # advance the global tick per head instead of per pass
    edit(CO, [
        ("            records.push(record);\n        }\n\n        runtime.global_tick = next_global_tick;\n",
         "            records.push(record);\n            runtime.global_tick = runtime\n                .global_tick\n                .checked_increment()\n                .ok_or(RuntimeError::GlobalTickOverflow)?;\n        }\n\n", 1),
    ])
elif mid == 'M8':  # Budgeted admission follows insertion order (Vec) instead of the ordered map
    edit(HI, [
        ("    pending: BTreeMap<Hash, IngressEnvelope>,\n    policy: InboxPolicy,\n",
         "    pending: BTreeMap<Hash, IngressEnvelope>,\n    arrival: Vec<Hash>,\n    policy: InboxPolicy,\n", 1),
        ("            pending: BTreeMap::new(),\n",
         "            pending: BTreeMap::new(),\n            arrival: Vec::new(),\n", 2),
        ("            Entry::Vacant(v) => {\n                v.insert(envelope);\n",
         "            Entry::Vacant(v) => {\n                v.insert(envelope);\n                self.arrival.push(ingress_id);\n", 1),
        ("                // ingest-time filtering for KindFilter).\n                std::mem::take(&mut self.pending).into_values().collect()",
         "                // ingest-time filtering for KindFilter).\n                self.arrival.clear();\n                std::mem::take(&mut self.pending).into_values().collect()", 1),
        ("                for (id, env) in &self.pending {\n                    if admitted.len() >= limit {\n                        break;\n                    }\n                    admitted.push(env.clone());\n                    to_remove.push(*id);\n                }\n                for id in to_remove {\n                    self.pending.remove(&id);\n                }",
         "                for id in &self.arrival {\n                    if admitted.len() >= limit {\n                        break;\n                    }\n                    if let Some(env) = self.pending.get(id) {\n                        admitted.push(env.clone());\n                        to_remove.push(*id);\n                    }\n                }\n                for id in to_remove {\n                    self.pending.remove(&id);\n                    self.arrival.retain(|x| *x != id);\n                }", 1),
    ])
elif mid == 'M9':  # runtime ingest no longer consults the committed-ingress ledger
    edit(CO, [
        ("""            let record = self.duplicate_submission_record(head_key, ingress_id);
            return Ok(IngressDisposition::Duplicate {
                ingress_id,
                head_key,
                submission_id: record.submission_id,
                submission_generation: record.submission_generation,
            });
        }

        let outcome = self""",
         """            let _ = self.duplicate_submission_record(head_key, ingress_id);
        }

        let outcome = self""", 1),
    ])
elif mid == 'M10':  # parentless ingress id no longer commits to the intent kind
    edit(HI, [
        ("""    hasher.update(b"ingress:");
    hasher.update(kind.as_hash());
    hasher.update(bytes);""",
         """    hasher.update(b"ingress:");
    hasher.update(bytes);""", 1),
    ])
else:
    sys.exit('unknown mutant ' + mid)
print('applied', mid)
